import InTotoModel.Lemmas.VerifySpec
/-
  What else lies in the link directory does not matter.  A file whose name is not that of a piece of
  evidence of one of the layout's steps (`<step>.<8 characters>.link`, or the step's pattern where the
  name holds pattern syntax) - whatever it contains, readable or not - can be put anywhere into the
  directory's listing without changing the verdict or the summary.  The link directory is written by
  whoever can write it; only the files the layout names are looked at.
-/
namespace InToto.VerifySpec
open InToto InToto.Verify InToto.Rules InToto.Threshold

variable {K : Type}

theorem evidence_insert_other (pre post : List (Str × FileC K)) (subs subs' : List (Str × Dir K)) (f : Str × FileC K)
    (stepName : Str) (hf : matchesStepFile stepName f.1 = false) :
    evidence (Dir.mk (pre ++ f :: post) subs) stepName = evidence (Dir.mk (pre ++ post) subs') stepName := by
  unfold evidence
  simp only [Dir.files, List.filterMap_append, List.filterMap_cons]
  have : filedUnder stepName f = none := by unfold filedUnder; simp [hf]
  rw [this]

theorem readable_insert_other (pre post : List (Str × FileC K)) (subs subs' : List (Str × Dir K)) (f : Str × FileC K)
    (stepName : Str) (hf : matchesStepFile stepName f.1 = false) :
    readable (Dir.mk (pre ++ f :: post) subs) stepName = readable (Dir.mk (pre ++ post) subs') stepName := by
  unfold readable
  simp only [Dir.files, List.all_append, List.all_cons, hf, Bool.not_false, Bool.true_or, Bool.true_and]

/-- acceptance carries over between two directories with the same sub-directories whose evidence and
    readability agree for every step of the layout -/
theorem accepted_of_same_evidence (sub : List Str → Block K → List K → Dir K → Str → Option Link) (env : Env K)
    (path : List Str) (b : Block K) (keys : List K) (dir dir' : Dir K) (name : Str) (out : Link)
    (hsubs : dir'.subs = dir.subs)
    (hev : ∀ L, b.signed = .layout L → ∀ st ∈ L.steps,
      evidence dir' st.name = evidence dir st.name ∧ readable dir' st.name = readable dir st.name)
    (h : Accepted sub env path b keys dir name out) : Accepted sub env path b keys dir' name out := by
  obtain ⟨L, links, reps, insp, h1, h2, h3, h4, h5, h6, h7, h8, h9, h10, h11, h12⟩ := h
  refine ⟨⟨L, links, reps, insp, h1, h2, h3, h4, ?_, ?_, h7, h8, h9, h10, h11, h12⟩⟩
  · intro st hst
    obtain ⟨a, b', c⟩ := h5 st hst
    exact ⟨a, b', by rw [(hev L h1 st hst).2]; exact c⟩
  · rw [← h6]
    apply allSome_congr
    intro st hst
    unfold stepLinks
    simp only
    rw [(hev L h1 st hst).1]
    have hst' : ∀ e, standsFor sub path L dir' st.name e = standsFor sub path L dir st.name e := by
      intro e
      unfold standsFor subDirOf
      rw [hsubs]
    rw [show standsFor sub path L dir' st.name = standsFor sub path L dir st.name from funext hst']

/-- **Other files do not matter.**  A file named like no evidence of any step of the layout, inserted
    anywhere into the listing of the link directory, changes nothing. -/
theorem acceptsStep_insert_other (sub : List Str → Block K → List K → Dir K → Str → Option Link) (env : Env K)
    (path : List Str) (b : Block K) (keys : List K) (pre post : List (Str × FileC K)) (subs : List (Str × Dir K))
    (f : Str × FileC K) (name : Str)
    (hf : ∀ L, b.signed = .layout L → ∀ st ∈ L.steps, matchesStepFile st.name f.1 = false) :
    acceptsStep sub env path b keys (Dir.mk (pre ++ f :: post) subs) name =
      acceptsStep sub env path b keys (Dir.mk (pre ++ post) subs) name := by
  have key : ∀ out, acceptsStep sub env path b keys (Dir.mk (pre ++ f :: post) subs) name = some out ↔
      acceptsStep sub env path b keys (Dir.mk (pre ++ post) subs) name = some out := by
    intro out
    rw [acceptsStep_iff, acceptsStep_iff]
    constructor
    · exact accepted_of_same_evidence sub env path b keys _ _ name out rfl
        (fun L hL st hst => ⟨(evidence_insert_other pre post subs subs f st.name (hf L hL st hst)).symm,
          (readable_insert_other pre post subs subs f st.name (hf L hL st hst)).symm⟩)
    · exact accepted_of_same_evidence sub env path b keys _ _ name out rfl
        (fun L hL st hst => ⟨evidence_insert_other pre post subs subs f st.name (hf L hL st hst),
          readable_insert_other pre post subs subs f st.name (hf L hL st hst)⟩)
  cases h1 : acceptsStep sub env path b keys (Dir.mk (pre ++ f :: post) subs) name with
  | some out => exact ((key out).mp h1).symm
  | none =>
    cases h2 : acceptsStep sub env path b keys (Dir.mk (pre ++ post) subs) name with
    | none => rfl
    | some out => rw [(key out).mpr h2] at h1; cases h1

end InToto.VerifySpec

namespace InToto.VerifySpec
open InToto InToto.Verify InToto.Rules InToto.Threshold

variable {K : Type}

/-! ### other sub-directories do not matter either -/

theorem lookup_insert_other {α : Type} (k : Str) (pre post : List (Str × α)) (e : Str × α) (hne : e.1 ≠ k) :
    lookup k (pre ++ e :: post) = lookup k (pre ++ post) := by
  rw [lookup_append, lookup_append]
  obtain ⟨n, d⟩ := e
  simp only [lookup]
  rw [if_neg hne]

/-- acceptance carries over between two directories with the same files whose sub-directories agree under
    every name a delegated step of the layout can use -/
theorem accepted_of_same_subdirs (sub : List Str → Block K → List K → Dir K → Str → Option Link) (env : Env K)
    (path : List Str) (b : Block K) (keys : List K) (dir dir' : Dir K) (name : Str) (out : Link)
    (hfiles : dir'.files = dir.files)
    (hsub : ∀ L, b.signed = .layout L → ∀ st ∈ L.steps, ∀ kid : Str,
      subDirOf dir' (st.name ++ '.' :: prefix8 kid) = subDirOf dir (st.name ++ '.' :: prefix8 kid))
    (h : Accepted sub env path b keys dir name out) : Accepted sub env path b keys dir' name out := by
  obtain ⟨L, links, reps, insp, h1, h2, h3, h4, h5, h6, h7, h8, h9, h10, h11, h12⟩ := h
  have hev : ∀ n, evidence dir' n = evidence dir n := by intro n; unfold evidence; rw [hfiles]
  have hrd : ∀ n, readable dir' n = readable dir n := by intro n; unfold readable; rw [hfiles]
  refine ⟨⟨L, links, reps, insp, h1, h2, h3, h4, ?_, ?_, h7, h8, h9, h10, h11, h12⟩⟩
  · intro st hst
    obtain ⟨a, b', c⟩ := h5 st hst
    exact ⟨a, b', by rw [hrd]; exact c⟩
  · rw [← h6]
    apply allSome_congr
    intro st hst
    unfold stepLinks
    simp only
    rw [hev]
    have hst' : ∀ e, standsFor sub path L dir' st.name e = standsFor sub path L dir st.name e := by
      intro e
      unfold standsFor
      simp only
      rw [hsub L h1 st hst e.1]
    rw [show standsFor sub path L dir' st.name = standsFor sub path L dir st.name from funext hst']

/-- **Other sub-directories do not matter.**  A sub-directory whose name is not `<step>.<8 characters>` for a
    step of the layout, inserted anywhere among the sub-directories, changes nothing - whatever it holds. -/
theorem acceptsStep_insert_other_subdir (sub : List Str → Block K → List K → Dir K → Str → Option Link) (env : Env K)
    (path : List Str) (b : Block K) (keys : List K) (files : List (Str × FileC K)) (pre post : List (Str × Dir K))
    (d : Str × Dir K) (name : Str)
    (hd : ∀ L, b.signed = .layout L → ∀ st ∈ L.steps, ∀ kid : Str, d.1 ≠ st.name ++ '.' :: prefix8 kid) :
    acceptsStep sub env path b keys (Dir.mk files (pre ++ d :: post)) name =
      acceptsStep sub env path b keys (Dir.mk files (pre ++ post)) name := by
  have hs : ∀ L, b.signed = .layout L → ∀ st ∈ L.steps, ∀ kid : Str,
      subDirOf (Dir.mk files (pre ++ d :: post)) (st.name ++ '.' :: prefix8 kid) =
        subDirOf (Dir.mk files (pre ++ post)) (st.name ++ '.' :: prefix8 kid) := by
    intro L hL st hst kid
    unfold subDirOf
    simp only [Dir.subs]
    rw [lookup_insert_other _ pre post d (hd L hL st hst kid)]
  have key : ∀ out, acceptsStep sub env path b keys (Dir.mk files (pre ++ d :: post)) name = some out ↔
      acceptsStep sub env path b keys (Dir.mk files (pre ++ post)) name = some out := by
    intro out
    rw [acceptsStep_iff, acceptsStep_iff]
    constructor
    · exact accepted_of_same_subdirs sub env path b keys _ _ name out rfl
        (fun L hL st hst kid => (hs L hL st hst kid).symm)
    · exact accepted_of_same_subdirs sub env path b keys _ _ name out rfl hs
  cases h1 : acceptsStep sub env path b keys (Dir.mk files (pre ++ d :: post)) name with
  | some out => exact ((key out).mp h1).symm
  | none =>
    cases h2 : acceptsStep sub env path b keys (Dir.mk files (pre ++ post)) name with
    | none => rfl
    | some out => rw [(key out).mpr h2] at h1; cases h1

end InToto.VerifySpec
