import InTotoModel.Model.Wire
/-
  Round-trip and faithfulness lemmas of the hand-written codecs (rules, commands, byproducts).
  The property statements are in Props/C16.lean.
-/
set_option linter.unusedSimpArgs false

namespace InToto.Wire
open InToto InToto.Rules

theorem strsOfJson_map_str (l : List Str) : strsOfJson (l.map JV.str) = some l := by
  induction l with
  | nil => rfl
  | cons x xs ih => simp [strsOfJson, ih]

theorem parseRuleTokens_ruleTokens (r : Rule) : parseRuleTokens (ruleTokens r) = some r := by
  cases r with
  | matchR p s w d f =>
    cases s <;> cases w <;> cases d <;>
      simp [ruleTokens, parseRuleTokens, parseAfterWith, parseWith]
  | _ => simp [ruleTokens, parseRuleTokens]

/-- Every rule form survives the wire: decoding the encoding returns the rule. -/
theorem rule_round_trip (r : Rule) : ruleOfJson (ruleToJson r) = some r := by
  simp [ruleOfJson, ruleToJson, strsOfJson_map_str, parseRuleTokens_ruleTokens]

/-- Commands survive the wire. -/
theorem command_round_trip (c : List Str) : commandOfJson (commandToJson c) = some c := by
  simp [commandOfJson, commandToJson, strsOfJson_map_str]

def withTok : ArtKind → Str
  | .materials => ['M', 'A', 'T', 'E', 'R', 'I', 'A', 'L', 'S']
  | .products => ['P', 'R', 'O', 'D', 'U', 'C', 'T', 'S']

theorem parseWith_spec {t : Str} {w : ArtKind} (h : parseWith t = some w) : t = withTok w := by
  unfold parseWith at h
  split at h
  · cases h; assumption
  · split at h
    · cases h; assumption
    · cases h

theorem parseAfterWith_spec {p : Str} {s : Option Str} {toks : List Str} {r : Rule}
    (h : parseAfterWith p s toks = some r) :
    ∃ w d f, r = .matchR p s w d f ∧
      toks = withTok w :: ((match d with | some x => [['I', 'N'], x] | none => []) ++ [['F', 'R', 'O', 'M'], f]) := by
  unfold parseAfterWith at h
  split at h
  · rename_i target rest
    split at h
    · cases h
    · rename_i w hw
      have ht := parseWith_spec hw
      split at h
      · rename_i t1 dst t2 step
        split at h
        · rename_i hc
          cases h
          exact ⟨w, some dst, step, rfl, by rw [ht, hc.1, hc.2]; rfl⟩
        · cases h
      · rename_i t1 step
        split at h
        · rename_i hc
          cases h
          exact ⟨w, none, step, rfl, by rw [ht, hc]; rfl⟩
        · cases h
      · cases h
  · cases h

/-- The reader never alters what it accepts: an accepted token list is exactly the encoding of the
    rule it is read as (keyword, pattern, prefixes, step all preserved, nothing dropped). -/
theorem rule_reader_faithful (toks : List Str) (r : Rule) (h : parseRuleTokens toks = some r) :
    ruleTokens r = toks := by
  unfold parseRuleTokens at h
  split at h
  · rename_i typ p rest
    repeat' split at h
    all_goals (try (cases h))
    all_goals (try (subst_vars; simp [ruleTokens]))
    all_goals (
      obtain ⟨w, d, f, hr, ht⟩ := parseAfterWith_spec h
      subst hr
      subst_vars
      cases w <;> cases d <;> simp [ruleTokens, withTok])
  · cases h

/-- Consequently two different accepted token lists are never read as the same rule. -/
theorem rule_reader_injective (t1 t2 : List Str) (r : Rule)
    (h1 : parseRuleTokens t1 = some r) (h2 : parseRuleTokens t2 = some r) : t1 = t2 := by
  rw [← rule_reader_faithful t1 r h1, ← rule_reader_faithful t2 r h2]

theorem getField_other {k : Str} {other : List (Str × Str)} (h : ∀ p ∈ other, p.1 ≠ k) :
    getField k (other.map fun p => (p.1, JV.str p.2)) = none := by
  induction other with
  | nil => rfl
  | cons p r ih =>
    have hk : p.1 ≠ k := h p (by simp)
    simp only [List.map_cons, getField, hk, if_false]
    exact ih (fun q hq => h q (by simp [hq]))

theorem flattenRest_other {other : List (Str × Str)}
    (h : ∀ p ∈ other, p.1 ≠ kReturn ∧ p.1 ≠ kStderr ∧ p.1 ≠ kStdout) :
    flattenRest (other.map fun p => (p.1, JV.str p.2)) = some other := by
  induction other with
  | nil => rfl
  | cons p r ih =>
    have ⟨h1, h2, h3⟩ := h p (by simp)
    simp only [List.map_cons, flattenRest, h1, h2, h3, or_self, if_false]
    rw [ih (fun q hq => h q (by simp [hq]))]
    rfl

theorem flattenRest_skip {pre rest : List (Str × JV)}
    (h : ∀ p ∈ pre, p.1 = kReturn ∨ p.1 = kStderr ∨ p.1 = kStdout) :
    flattenRest (pre ++ rest) = flattenRest rest := by
  induction pre with
  | nil => rfl
  | cons p r ih =>
    obtain ⟨k, v⟩ := p
    have := h (k, v) (by simp)
    simp only at this
    simp only [List.cons_append, flattenRest, this, if_true]
    exact ih (fun q hq => h q (by simp [hq]))

/-- Byproducts (return value, output streams and any extra fields) survive the wire. -/
theorem byproducts_round_trip (b : ByProducts) (hwf : b.WF) :
    byProductsOfJson (byProductsToJson b) = some b := by
  obtain ⟨hother, hrv⟩ := hwf
  obtain ⟨rv, se, so, other⟩ := b
  simp only at hother hrv
  have hne1 : kReturn ≠ kStderr := by decide
  have hne2 : kReturn ≠ kStdout := by decide
  have hne3 : kStderr ≠ kStdout := by decide
  have ho1 : ∀ p ∈ other, p.1 ≠ kReturn := fun p hp => (hother p hp).1
  have ho2 : ∀ p ∈ other, p.1 ≠ kStderr := fun p hp => (hother p hp).2.1
  have ho3 : ∀ p ∈ other, p.1 ≠ kStdout := fun p hp => (hother p hp).2.2
  simp only [byProductsToJson, byProductsOfJson]
  have hfl : flattenRest (optField kReturn (fun i => JV.num (.int i)) rv ++ optField kStderr JV.str se
      ++ optField kStdout JV.str so ++ other.map (fun p => (p.1, JV.str p.2))) = some other := by
    rw [flattenRest_skip, flattenRest_other hother]
    intro p hp
    simp only [List.mem_append] at hp
    rcases hp with (hp | hp) | hp
    · cases rv <;> simp [optField] at hp; exact Or.inl (by rw [hp])
    · cases se <;> simp [optField] at hp; exact Or.inr (Or.inl (by rw [hp]))
    · cases so <;> simp [optField] at hp; exact Or.inr (Or.inr (by rw [hp]))
  rw [hfl]
  cases rv with
  | none =>
    cases se with
    | none =>
      cases so with
      | none => simp [optField, optDecode, getField_other ho1, getField_other ho2, getField_other ho3]
      | some so =>
        simp [optField, optDecode, getField, getField_other ho1, getField_other ho2, decStr, hne2.symm, hne3.symm, hne2, hne3]
    | some se =>
      cases so with
      | none => simp [optField, optDecode, getField, getField_other ho1, getField_other ho3, decStr, hne1.symm, hne1, hne3]
      | some so => simp [optField, optDecode, getField, getField_other ho1, decStr, hne1.symm, hne1, hne3, hne3.symm, hne2.symm]
  | some rv =>
    have hin : inI32 rv = true := hrv rv rfl
    cases se with
    | none =>
      cases so with
      | none => simp [optField, optDecode, getField, getField_other ho2, getField_other ho3, decI32, hin, hne1, hne2]
      | some so => simp [optField, optDecode, getField, getField_other ho2, decI32, decStr, hin, hne1, hne2, hne3.symm, hne2.symm]
    | some se =>
      cases so with
      | none => simp [optField, optDecode, getField, getField_other ho3, decI32, decStr, hin, hne1, hne2, hne1.symm, hne3]
      | some so => simp [optField, optDecode, getField, decI32, decStr, hin, hne1, hne2, hne1.symm, hne3, hne3.symm, hne2.symm]

/- Non-vacuity: a byproducts value with every field and an extra entry is well formed; a MATCH rule whose
   prefixes are themselves keywords still round-trips. -/
example : (⟨some 0, some [], some ['o', 'k'], [(['x'], ['y'])]⟩ : ByProducts).WF := by
  constructor
  · intro p hp; simp at hp; subst hp; decide
  · intro i hi; cases hi; decide
example : ruleOfJson (ruleToJson (.matchR ['I', 'N'] (some ['W', 'I', 'T', 'H']) .products (some ['F', 'R', 'O', 'M']) ['I', 'N']))
    = some (.matchR ['I', 'N'] (some ['W', 'I', 'T', 'H']) .products (some ['F', 'R', 'O', 'M']) ['I', 'N']) :=
  rule_round_trip _

end InToto.Wire
