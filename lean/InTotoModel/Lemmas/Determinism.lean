import InTotoModel.Lemmas.Verify
import InTotoModel.Lemmas.JsonOrder
/-
  Order independence of the whole pipeline (C13).

  Every hash-map iteration in the model goes through `ord.perm site`.  This file shows that the
  success part of `verify` (verdict and summary link) is the same for any two valid families of
  orders.  Method: each loop is characterised by an order-free description (a filter, an
  all-or-nothing map), intermediate tables of two runs are related by "same keys, values up to
  permutation", and every consumer of a table is shown to read it through `lookup` only.
-/
namespace InToto.Verify
open InToto InToto.Threshold InToto.Rules InToto.Json

variable {K : Type}


@[simp] theorem okPart_ok {α : Type} (a : α) : okPart (Out.ok a) = some a := rfl
@[simp] theorem okPart_err {α : Type} (c : Nat) : okPart (Out.err c : Out α) = none := rfl
@[simp] theorem okPart_panic {α : Type} (c : Nat) : okPart (Out.panic c : Out α) = none := rfl

theorem okPart_eq_some {α : Type} {o : Out α} {a : α} : okPart o = some a ↔ o = .ok a := by
  cases o <;> simp [okPart]

/-! ### association lists -/

section assoc
variable {α : Type}

abbrev KeysNodup (l : List (Str × α)) : Prop := (l.map Prod.fst).Nodup

theorem upsert_fresh {k : Str} {v : α} {l : List (Str × α)} (h : k ∉ l.map Prod.fst) :
    upsert k v l = l ++ [(k, v)] := by
  induction l with
  | nil => rfl
  | cons p r ih =>
    obtain ⟨k', v'⟩ := p
    simp only [List.map_cons, List.mem_cons, not_or] at h
    simp only [upsert]
    rw [if_neg (fun e => h.1 e.symm), ih h.2]
    rfl

theorem extend_fresh {acc ls : List (Str × α)} (h : KeysNodup (acc ++ ls)) : extend acc ls = acc ++ ls := by
  induction ls generalizing acc with
  | nil => simp [extend]
  | cons p r ih =>
    obtain ⟨k, v⟩ := p
    simp only [extend]
    have hk : k ∉ acc.map Prod.fst := by
      intro hm
      have := h
      simp only [KeysNodup, List.map_append, List.map_cons] at this
      rw [List.nodup_append] at this
      exact this.2.2 k hm k (by simp) rfl
    rw [upsert_fresh hk, ih]
    · simp
    · simpa [KeysNodup] using h

theorem extend_nil {ls : List (Str × α)} (h : KeysNodup ls) : extend [] ls = ls := by
  have := extend_fresh (acc := []) (ls := ls) (by simpa using h)
  simpa using this

theorem lookup_none_of_not_mem {k : Str} {l : List (Str × α)} (h : k ∉ l.map Prod.fst) : lookup k l = none := by
  induction l with
  | nil => rfl
  | cons p r ih =>
    obtain ⟨k', v'⟩ := p
    simp only [List.map_cons, List.mem_cons, not_or] at h
    simp only [lookup]
    rw [if_neg (fun e => h.1 e.symm)]
    exact ih h.2

theorem lookup_perm {l l' : List (Str × α)} (hp : l.Perm l') (hnd : KeysNodup l) (k : Str) :
    lookup k l = lookup k l' := by
  have hnd' : KeysNodup l' := (hp.map Prod.fst).nodup_iff.mp hnd
  cases h : lookup k l with
  | some v => exact (lookup_of_mem hnd' (hp.mem_iff.mp (mem_of_lookup h))).symm
  | none =>
    cases h' : lookup k l' with
    | none => rfl
    | some v =>
      have := lookup_of_mem hnd (hp.mem_iff.mpr (mem_of_lookup h'))
      rw [h] at this; cases this

theorem lookup_extend_congr {m m' : List (Str × α)} (r : List (Str × α)) (k : Str)
    (h : lookup k m = lookup k m') : lookup k (extend m r) = lookup k (extend m' r) := by
  induction r generalizing m m' with
  | nil => simpa [extend] using h
  | cons p r ih =>
    obtain ⟨k', v⟩ := p
    simp only [extend]
    apply ih
    by_cases e : k = k'
    · subst e; rw [lookup_upsert_self, lookup_upsert_self]
    · rw [lookup_upsert_ne e, lookup_upsert_ne e, h]

theorem keys_extend_nil {ls : List (Str × α)} (h : KeysNodup ls) : KeysNodup (extend [] ls) := by
  rw [extend_nil h]; exact h

end assoc

/-! ### all-or-nothing maps -/

section allSome
variable {α β : Type}


theorem allSome_cons (f : α → Option β) (a : α) (r : List α) :
    allSome f (a :: r) = (f a).bind fun b => (allSome f r).map (b :: ·) := by
  simp only [allSome]
  cases f a with
  | none => rfl
  | some b => cases allSome f r <;> rfl

theorem allSome_eq_some {f : α → Option β} {l : List α} {r : List β} (h : allSome f l = some r) :
    r = l.filterMap f ∧ ∀ a ∈ l, (f a).isSome := by
  induction l generalizing r with
  | nil => simp only [allSome] at h; cases h; simp
  | cons a rest ih =>
    simp only [allSome] at h
    split at h
    · cases h
    · rename_i b hb
      split at h
      · cases h
      · rename_i bs hbs
        cases h
        obtain ⟨e, hall⟩ := ih hbs
        refine ⟨by simp [hb, e], ?_⟩
        intro x hx
        simp only [List.mem_cons] at hx
        rcases hx with rfl | hx
        · simp [hb]
        · exact hall x hx

theorem allSome_eq_none {f : α → Option β} {l : List α} (h : allSome f l = none) : ∃ a ∈ l, f a = none := by
  induction l with
  | nil => simp [allSome] at h
  | cons a rest ih =>
    simp only [allSome] at h
    split at h
    · rename_i ha; exact ⟨a, by simp, ha⟩
    · split at h
      · rename_i hr
        obtain ⟨x, hx, hf⟩ := ih hr
        exact ⟨x, List.mem_cons_of_mem _ hx, hf⟩
      · cases h

theorem allSome_of_all {f : α → Option β} {l : List α} (h : ∀ a ∈ l, (f a).isSome) :
    allSome f l = some (l.filterMap f) := by
  cases hh : allSome f l with
  | some r => rw [(allSome_eq_some hh).1]
  | none =>
    obtain ⟨a, ha, hf⟩ := allSome_eq_none hh
    have := h a ha
    rw [hf] at this; cases this

theorem allSome_congr {f g : α → Option β} {l : List α} (h : ∀ a ∈ l, f a = g a) : allSome f l = allSome g l := by
  induction l with
  | nil => rfl
  | cons a rest ih =>
    simp only [allSome]
    rw [h a (by simp), ih (fun x hx => h x (List.mem_cons_of_mem _ hx))]

/-- two outcomes are both failures, or both successes with related values -/
def OptRel {γ δ : Type} (R : γ → δ → Prop) : Option γ → Option δ → Prop
  | none, none => True
  | some a, some b => R a b
  | _, _ => False

theorem OptRel.bind {γ δ γ' δ' : Type} {R : γ → δ → Prop} {S : γ' → δ' → Prop} {a : Option γ} {b : Option δ}
    {f : γ → Option γ'} {g : δ → Option δ'} (h : OptRel R a b) (hf : ∀ x y, R x y → OptRel S (f x) (g y)) :
    OptRel S (a.bind f) (b.bind g) := by
  cases a <;> cases b <;> simp only [OptRel] at h
  · trivial
  · exact hf _ _ h

theorem OptRel.eq {γ : Type} {a b : Option γ} (h : OptRel Eq a b) : a = b := by
  cases a <;> cases b <;> simp only [OptRel] at h
  · rfl
  · rw [h]

theorem OptRel.of_eq {γ : Type} {R : γ → γ → Prop} (hr : ∀ x, R x x) {a b : Option γ} (h : a = b) : OptRel R a b := by
  subst h; cases a <;> simp [OptRel, hr]

theorem OptRel.mono {γ δ : Type} {R S : γ → δ → Prop} {a : Option γ} {b : Option δ} (h : OptRel R a b)
    (hrs : ∀ x y, R x y → S x y) : OptRel S a b := by
  cases a <;> cases b <;> simp only [OptRel] at h ⊢
  exact hrs _ _ h

theorem allSome_perm {f : α → Option β} {l l' : List α} (hp : l.Perm l') :
    OptRel List.Perm (allSome f l) (allSome f l') := by
  cases h : allSome f l with
  | some r =>
    obtain ⟨e, hall⟩ := allSome_eq_some h
    have hall' : ∀ a ∈ l', (f a).isSome := fun a ha => hall a (hp.mem_iff.mpr ha)
    rw [allSome_of_all hall', e]
    exact hp.filterMap f
  | none =>
    obtain ⟨a, ha, hf⟩ := allSome_eq_none h
    cases h' : allSome f l' with
    | none => trivial
    | some r' =>
      have := (allSome_eq_some h').2 a (hp.mem_iff.mp ha)
      rw [hf] at this; cases this

end allSome

/-! ### stage 1 and stage 4: signature counting -/

theorem verifyBlockK_order_independent (env : Env K) (ord ord' : Ord) (h : ord.Valid) (h' : ord'.Valid)
    (b : Block K) (t : Nat) (auth : List K) :
    verifyBlockK env ord b t auth = verifyBlockK env ord' b t auth := by
  unfold verifyBlockK verifyBlock
  rw [c04_order_independent env.kidOf _ (ord.perm 0) (ord'.perm 0) (h 0 _) (h' 0 _)]

/-- is this loaded link counted for step `st`? (the test inside `goodLinks`) -/
def countedB (env : Env K) (ord : Ord) (L : Layout K) (st : Step) (e : Str × Block K) : Bool :=
  if e.1 ∈ st.pubkeys then
    match lookup e.1 L.keys with
    | some k =>
      match verifyBlockK env ord e.2 1 [k] with
      | .ok _ => true
      | _ => false
    | none => false
  else false

theorem countedB_order_independent (env : Env K) (ord ord' : Ord) (h : ord.Valid) (h' : ord'.Valid)
    (L : Layout K) (st : Step) : countedB env ord L st = countedB env ord' L st := by
  funext e
  unfold countedB
  split
  · split
    · rw [verifyBlockK_order_independent env ord ord' h h']
    · rfl
  · rfl

theorem goodLinks_eq_filter (env : Env K) (ord : Ord) (L : Layout K) (st : Step)
    (links acc : List (Str × Block K)) (hnd : KeysNodup (acc ++ links)) :
    goodLinks env ord L st links acc = acc ++ links.filter (countedB env ord L st) := by
  induction links generalizing acc with
  | nil => simp [goodLinks]
  | cons x rest ih =>
    obtain ⟨kid, b⟩ := x
    have hnd' : KeysNodup (acc ++ rest) := by
      have := hnd
      simp only [KeysNodup, List.map_append, List.map_cons] at this ⊢
      rw [List.nodup_append] at this ⊢
      refine ⟨this.1, (List.nodup_cons.mp this.2.1).2, ?_⟩
      intro a ha b' hb'
      exact this.2.2 a ha b' (List.mem_cons_of_mem _ hb')
    have hfresh : kid ∉ acc.map Prod.fst := by
      intro hm
      have := hnd
      simp only [KeysNodup, List.map_append, List.map_cons] at this
      rw [List.nodup_append] at this
      exact this.2.2 kid hm kid (by simp) rfl
    have hnd'' : KeysNodup ((acc ++ [(kid, b)]) ++ rest) := by
      simpa [KeysNodup] using hnd
    rw [List.filter_cons]
    simp only [goodLinks]
    by_cases hpk : kid ∈ st.pubkeys
    · cases hk : lookup kid L.keys with
      | none =>
        have hc : countedB env ord L st (kid, b) = false := by simp [countedB, hpk, hk]
        simp only [hpk, if_true, hc]
        rw [ih _ hnd']; simp
      | some k =>
        cases hv : verifyBlockK env ord b 1 [k] with
        | ok m =>
          have hc : countedB env ord L st (kid, b) = true := by simp [countedB, hpk, hk, hv]
          simp only [hpk, if_true, hc, hv]
          rw [upsert_fresh hfresh, ih _ hnd'']
          simp
        | err c =>
          have hc : countedB env ord L st (kid, b) = false := by simp [countedB, hpk, hk, hv]
          simp only [hpk, if_true, hc, hv]
          rw [ih _ hnd']; simp
        | panic c =>
          have hc : countedB env ord L st (kid, b) = false := by simp [countedB, hpk, hk, hv]
          simp only [hpk, if_true, hc, hv]
          rw [ih _ hnd']; simp
    · have hc : countedB env ord L st (kid, b) = false := by simp [countedB, hpk]
      simp only [hpk, if_false, hc]
      rw [ih _ hnd']; simp

theorem goodOf_perm (env : Env K) (ord ord' : Ord) (h : ord.Valid) (h' : ord'.Valid) (L : Layout K)
    (loaded : List (Str × List (Str × Block K))) (st : Step)
    (hnd : KeysNodup ((lookup st.name loaded).getD [])) :
    (goodOf env ord L loaded st).Perm (goodOf env ord' L loaded st) ∧ KeysNodup (goodOf env ord L loaded st) := by
  have p1 := h 1 _ ((lookup st.name loaded).getD [])
  have p2 := h' 1 _ ((lookup st.name loaded).getD [])
  have n1 : KeysNodup (ord.perm 1 ((lookup st.name loaded).getD [])) := (p1.map Prod.fst).nodup_iff.mpr hnd
  have n2 : KeysNodup (ord'.perm 1 ((lookup st.name loaded).getD [])) := (p2.map Prod.fst).nodup_iff.mpr hnd
  unfold goodOf
  rw [goodLinks_eq_filter _ _ _ _ _ _ (by simpa using n1), goodLinks_eq_filter _ _ _ _ _ _ (by simpa using n2),
    countedB_order_independent env ord ord' h h']
  refine ⟨?_, ?_⟩
  · simpa using (p1.trans p2.symm).filter _
  · simp only [List.nil_append]
    exact (List.Nodup.sublist ((List.filter_sublist).map Prod.fst) n1)

/-! ### tables related entry by entry: same key, values equal up to permutation -/

inductive Rel2 {β : Type} : List (Str × List (Str × β)) → List (Str × List (Str × β)) → Prop
  | nil : Rel2 [] []
  | cons {a b : Str × List (Str × β)} {l l' : List (Str × List (Str × β))} :
      a.1 = b.1 → a.2.Perm b.2 → KeysNodup a.2 → Rel2 l l' → Rel2 (a :: l) (b :: l')

section rel2
variable {β : Type}

theorem Rel2.keys {l l' : List (Str × List (Str × β))} (h : Rel2 l l') : l.map Prod.fst = l'.map Prod.fst := by
  induction h with
  | nil => rfl
  | cons h1 _ _ _ ih => simp [h1, ih]

theorem Rel2.refl_of {l : List (Str × List (Str × β))} (h : ∀ v ∈ l, KeysNodup v.2) : Rel2 l l := by
  induction l with
  | nil => exact .nil
  | cons a r ih =>
    exact .cons rfl (List.Perm.refl _) (h a (by simp)) (ih (fun v hv => h v (List.mem_cons_of_mem _ hv)))

theorem Rel2.upsert {l l' : List (Str × List (Str × β))} (h : Rel2 l l') (k : Str) {v v' : List (Str × β)}
    (hp : v.Perm v') (hn : KeysNodup v) : Rel2 (upsert k v l) (upsert k v' l') := by
  induction h with
  | nil => exact .cons rfl hp hn .nil
  | @cons a b l l' h1 h2 h3 _ ih =>
    obtain ⟨ka, va⟩ := a
    obtain ⟨kb, vb⟩ := b
    simp only at h1; subst h1
    simp only [Verify.upsert]
    split
    · rename_i hh; exact .cons rfl hp hn ‹_›
    · exact .cons rfl h2 h3 ih

/-- a permutation on one side can be mirrored on the other -/
theorem Rel2.perm_right {a b b' : List (Str × List (Str × β))} (h : Rel2 a b) (hp : b.Perm b') :
    ∃ a', a.Perm a' ∧ Rel2 a' b' := by
  induction hp generalizing a with
  | nil => cases h; exact ⟨[], .refl _, .nil⟩
  | cons x _ ih =>
    cases h with
    | cons h1 h2 h3 h4 =>
      obtain ⟨a', p, r⟩ := ih h4
      exact ⟨_ :: a', p.cons _, .cons h1 h2 h3 r⟩
  | swap x y l =>
    cases h with
    | cons h1 h2 h3 h4 =>
      cases h4 with
      | cons g1 g2 g3 g4 =>
        exact ⟨_, List.Perm.swap _ _ _, .cons g1 g2 g3 (.cons h1 h2 h3 g4)⟩
  | trans _ _ ih1 ih2 =>
    obtain ⟨a1, p1, r1⟩ := ih1 h
    obtain ⟨a2, p2, r2⟩ := ih2 r1
    exact ⟨a2, p1.trans p2, r2⟩

/-- same keys (up to a permutation of the entries), values equal up to permutation -/
def Sim2 (a b : List (Str × List (Str × β))) : Prop := ∃ c, a.Perm c ∧ Rel2 c b

theorem Rel2.lookup {l l' : List (Str × List (Str × β))} (h : Rel2 l l') (k : Str) :
    OptRel (fun v v' => v.Perm v' ∧ KeysNodup v) (lookup k l) (lookup k l') := by
  induction h with
  | nil => simp [Verify.lookup, OptRel]
  | @cons a b l l' h1 h2 h3 _ ih =>
    obtain ⟨ka, va⟩ := a
    obtain ⟨kb, vb⟩ := b
    simp only at h1; subst h1
    simp only [Verify.lookup]
    split
    · exact ⟨h2, h3⟩
    · exact ih

theorem Sim2.lookup {a b : List (Str × List (Str × β))} (h : Sim2 a b) (hn : KeysNodup a) (k : Str) :
    OptRel (fun v v' => v.Perm v' ∧ KeysNodup v) (lookup k a) (lookup k b) := by
  obtain ⟨c, p, r⟩ := h
  rw [lookup_perm p hn k]
  exact r.lookup k

end rel2

/-! ### stage 4: the verified tables of two runs are related -/

theorem verifyThresholds_rel (env : Env K) (ord ord' : Ord) (h : ord.Valid) (h' : ord'.Valid) (L : Layout K)
    (loaded : List (Str × List (Str × Block K)))
    (hl : ∀ n per, lookup n loaded = some per → KeysNodup per)
    (steps : List Step) (acc acc' : List (Str × List (Str × Block K))) (hr : Rel2 acc acc') :
    OptRel Rel2 (okPart (verifyThresholds env ord L loaded steps acc))
      (okPart (verifyThresholds env ord' L loaded steps acc')) := by
  induction steps generalizing acc acc' with
  | nil => simpa [verifyThresholds, OptRel] using hr
  | cons st rest ih =>
    have hnd : KeysNodup ((lookup st.name loaded).getD []) := by
      cases hh : lookup st.name loaded with
      | none => simp [KeysNodup]
      | some per => exact hl _ _ hh
    obtain ⟨hp, hn⟩ := goodOf_perm env ord ord' h h' L loaded st hnd
    simp only [verifyThresholds]
    change OptRel Rel2
      (okPart (if (decide ((goodOf env ord L loaded st).length < st.threshold) || (lookup st.name acc).isSome) = true then .err 4
        else verifyThresholds env ord L loaded rest (upsert st.name (goodOf env ord L loaded st) acc)))
      (okPart (if (decide ((goodOf env ord' L loaded st).length < st.threshold) || (lookup st.name acc').isSome) = true then .err 4
        else verifyThresholds env ord' L loaded rest (upsert st.name (goodOf env ord' L loaded st) acc')))
    have hsome : (lookup st.name acc).isSome = (lookup st.name acc').isSome := by
      have := hr.lookup st.name
      cases h1 : lookup st.name acc <;> cases h2 : lookup st.name acc' <;> simp [h1, h2, OptRel] at this ⊢
    rw [← hp.length_eq, hsome]
    split
    · simp [OptRel]
    · exact ih _ _ (hr.upsert _ hp hn)

/-! ### stage 5: sub-layouts, as all-or-nothing maps -/

/-- the link that stands for one piece of evidence: the link itself, or the summary of the
    sub-layout after its own full verification -/
def subLink (env : Env K) (ord : Ord) (fuel : Nat) (path : List Str) (L : Layout K) (dir : Dir K) (stepName : Str)
    (e : Str × Block K) : Option (Str × Link) :=
  match e.2.signed with
  | .link l => some (e.1, l)
  | .layout _ =>
    match lookup e.1 L.keys with
    | none => none
    | some k =>
      (okPart (verify env ord fuel (path ++ [subName stepName e.1]) e.2 [k]
        (subDirOf dir (subName stepName e.1)) stepName).1).map fun l => (e.1, l)

theorem subLink_key {env : Env K} {ord : Ord} {fuel : Nat} {path : List Str} {L : Layout K} {dir : Dir K}
    {stepName : Str} {e : Str × Block K} {r : Str × Link}
    (h : subLink env ord fuel path L dir stepName e = some r) : r.1 = e.1 := by
  unfold subLink at h
  split at h
  · cases h; rfl
  · split at h
    · cases h
    · cases hh : okPart (verify env ord fuel (path ++ [subName stepName e.1]) e.2 [_]
        (subDirOf dir (subName stepName e.1)) stepName).1 with
      | none => rw [hh] at h; cases h
      | some l => rw [hh] at h; cases h; rfl

theorem subLayoutsStep_eq (env : Env K) (ord : Ord) (fuel : Nat) (path : List Str) (L : Layout K) (dir : Dir K)
    (stepName : Str) (per : List (Str × Block K)) (acc : List (Str × Link)) (ev : List Event) :
    okPart (subLayoutsStep env ord fuel path L dir stepName per acc ev).1 =
      (allSome (subLink env ord fuel path L dir stepName) per).map (extend acc) := by
  induction per generalizing acc ev with
  | nil => rw [subLayoutsStep]; simp [allSome, extend]
  | cons x rest ih =>
    obtain ⟨kid, b⟩ := x
    rw [subLayoutsStep, allSome_cons]
    split
    · rename_i l hl
      have hs : subLink env ord fuel path L dir stepName (kid, b) = some (kid, l) := by simp [subLink, hl]
      rw [hs, ih]
      cases allSome (subLink env ord fuel path L dir stepName) rest <;> simp [extend]
    · rename_i L' hl
      split
      · rename_i hk
        have hs : subLink env ord fuel path L dir stepName (kid, b) = none := by simp [subLink, hl, hk]
        rw [hs]; simp
      · rename_i k hk
        simp only
        split
        · rename_i l evs hv
          have hs : subLink env ord fuel path L dir stepName (kid, b) = some (kid, l) := by
            simp only [subLink, hl, hk, subName]; rw [hv]; simp
          rw [hs, ih]
          cases allSome (subLink env ord fuel path L dir stepName) rest <;> simp [extend]
        · rename_i c evs hv
          have hs : subLink env ord fuel path L dir stepName (kid, b) = none := by
            simp only [subLink, hl, hk, subName]; rw [hv]; simp
          rw [hs]; simp
        · rename_i c evs hv
          have hs : subLink env ord fuel path L dir stepName (kid, b) = none := by
            simp only [subLink, hl, hk, subName]; rw [hv]; simp
          rw [hs]; simp

/-- the links that stand for the evidence of one step -/
def stepLinks (env : Env K) (ord : Ord) (fuel : Nat) (path : List Str) (L : Layout K) (dir : Dir K)
    (v : Str × List (Str × Block K)) : Option (Str × List (Str × Link)) :=
  (allSome (subLink env ord fuel path L dir v.1) (ord.perm 3 v.2)).map fun ls => (v.1, extend [] ls)

theorem subLayouts_eq (env : Env K) (ord : Ord) (fuel : Nat) (path : List Str) (L : Layout K) (dir : Dir K)
    (vs : List (Str × List (Str × Block K))) (acc : List (Str × List (Str × Link))) (ev : List Event) :
    okPart (subLayouts env ord fuel path L dir vs acc ev).1 =
      (allSome (stepLinks env ord fuel path L dir) vs).map (extend acc) := by
  induction vs generalizing acc ev with
  | nil => rw [subLayouts]; simp [allSome, extend]
  | cons v rest ih =>
    obtain ⟨stepName, per⟩ := v
    rw [subLayouts, allSome_cons]
    have hstep := subLayoutsStep_eq env ord fuel path L dir stepName (ord.perm 3 per) [] ev
    split
    · rename_i c ev1 heq
      rw [heq] at hstep
      have hs : stepLinks env ord fuel path L dir (stepName, per) = none := by
        simp only [stepLinks]
        cases ha : allSome (subLink env ord fuel path L dir stepName) (ord.perm 3 per) with
        | none => rfl
        | some ls => rw [ha] at hstep; simp at hstep
      rw [hs]; simp
    · rename_i c ev1 heq
      rw [heq] at hstep
      have hs : stepLinks env ord fuel path L dir (stepName, per) = none := by
        simp only [stepLinks]
        cases ha : allSome (subLink env ord fuel path L dir stepName) (ord.perm 3 per) with
        | none => rfl
        | some ls => rw [ha] at hstep; simp at hstep
      rw [hs]; simp
    · rename_i pl ev1 heq
      rw [heq] at hstep
      have hs : stepLinks env ord fuel path L dir (stepName, per) = some (stepName, pl) := by
        simp only [stepLinks]
        cases ha : allSome (subLink env ord fuel path L dir stepName) (ord.perm 3 per) with
        | none => rw [ha] at hstep; simp at hstep
        | some ls =>
          rw [ha] at hstep
          simp only [okPart_ok, Option.map_some, Option.some.injEq] at hstep
          rw [hstep]; rfl
      rw [hs, ih]
      cases allSome (stepLinks env ord fuel path L dir) rest <;> simp [extend]

theorem OptRel.trans {γ δ ε : Type} {R : γ → δ → Prop} {S : δ → ε → Prop} {T : γ → ε → Prop}
    {a : Option γ} {b : Option δ} {c : Option ε} (h1 : OptRel R a b) (h2 : OptRel S b c)
    (hrs : ∀ x y z, R x y → S y z → T x z) : OptRel T a c := by
  cases a <;> cases b <;> cases c <;> simp only [OptRel] at h1 h2 ⊢
  exact hrs _ _ _ h1 h2

theorem allSome_keys {α β : Type} {f : α → Option (Str × β)} {ka : α → Str}
    (hf : ∀ a r, f a = some r → r.1 = ka a) {l : List α} {r : List (Str × β)} (h : allSome f l = some r) :
    r.map Prod.fst = l.map ka := by
  induction l generalizing r with
  | nil => simp only [allSome] at h; cases h; rfl
  | cons a rest ih =>
    rw [allSome_cons] at h
    cases ha : f a with
    | none => rw [ha] at h; cases h
    | some b =>
      rw [ha] at h
      cases hr : allSome f rest with
      | none => rw [hr] at h; cases h
      | some bs =>
        rw [hr] at h
        simp only [Option.bind_some, Option.map_some, Option.some.injEq] at h
        subst h
        simp [hf a b ha, ih hr]

section stage5
variable (env : Env K) (ord ord' : Ord) (hord : ord.Valid) (hord' : ord'.Valid) (fuel : Nat)
  (hv : ∀ path b keys dir name,
    okPart (verify env ord fuel path b keys dir name).1 = okPart (verify env ord' fuel path b keys dir name).1)
include hv

theorem subLink_order_independent (path : List Str) (L : Layout K) (dir : Dir K) (stepName : Str) :
    subLink env ord fuel path L dir stepName = subLink env ord' fuel path L dir stepName := by
  funext e
  unfold subLink
  split
  · rfl
  · split
    · rfl
    · rw [hv]

include hord hord'

theorem stepLinks_rel (path : List Str) (L : Layout K) (dir : Dir K) {v v' : Str × List (Str × Block K)}
    (h1 : v.1 = v'.1) (h2 : v.2.Perm v'.2) (h3 : KeysNodup v.2) :
    OptRel (fun r r' => r.1 = r'.1 ∧ r.2.Perm r'.2 ∧ KeysNodup r.2)
      (stepLinks env ord fuel path L dir v) (stepLinks env ord' fuel path L dir v') := by
  have hp : (ord.perm 3 v.2).Perm (ord'.perm 3 v'.2) := ((hord 3 _ v.2).trans h2).trans (hord' 3 _ v'.2).symm
  have hr := allSome_perm (f := subLink env ord fuel path L dir v.1) hp
  unfold stepLinks
  rw [← subLink_order_independent env ord ord' fuel hv, ← h1]
  cases ha : allSome (subLink env ord fuel path L dir v.1) (ord.perm 3 v.2) with
  | none =>
    rw [ha] at hr
    cases hb : allSome (subLink env ord fuel path L dir v.1) (ord'.perm 3 v'.2) with
    | none => simp [OptRel]
    | some ls' => rw [hb] at hr; simp [OptRel] at hr
  | some ls =>
    rw [ha] at hr
    cases hb : allSome (subLink env ord fuel path L dir v.1) (ord'.perm 3 v'.2) with
    | none => rw [hb] at hr; simp [OptRel] at hr
    | some ls' =>
      rw [hb] at hr
      simp only [OptRel] at hr
      have k1 : ls.map Prod.fst = (ord.perm 3 v.2).map Prod.fst :=
        allSome_keys (ka := Prod.fst) (fun a r h => subLink_key h) ha
      have n1 : KeysNodup ls := by
        unfold KeysNodup; rw [k1]
        exact ((hord 3 _ v.2).map Prod.fst).nodup_iff.mpr h3
      have n2 : KeysNodup ls' := (hr.map Prod.fst).nodup_iff.mp n1
      simp only [Option.map_some, OptRel, extend_nil n1, extend_nil n2]
      exact ⟨trivial, hr, n1⟩

theorem stepLinks_rel2 (path : List Str) (L : Layout K) (dir : Dir K) {c vs' : List (Str × List (Str × Block K))}
    (h : Rel2 c vs') :
    OptRel Rel2 (allSome (stepLinks env ord fuel path L dir) c) (allSome (stepLinks env ord' fuel path L dir) vs') := by
  induction h with
  | nil => simp [allSome, OptRel, Rel2.nil]
  | @cons a b l l' h1 h2 h3 _ ih =>
    rw [allSome_cons, allSome_cons]
    apply OptRel.bind (stepLinks_rel env ord ord' hord hord' fuel hv path L dir h1 h2 h3)
    intro x y hxy
    cases hl : allSome (stepLinks env ord fuel path L dir) l with
    | none =>
      rw [hl] at ih
      cases hl' : allSome (stepLinks env ord' fuel path L dir) l' with
      | none => simp [OptRel]
      | some r' => rw [hl'] at ih; simp [OptRel] at ih
    | some r =>
      rw [hl] at ih
      cases hl' : allSome (stepLinks env ord' fuel path L dir) l' with
      | none => rw [hl'] at ih; simp [OptRel] at ih
      | some r' =>
        rw [hl'] at ih
        simp only [OptRel] at ih
        simp only [Option.map_some, OptRel]
        exact .cons hxy.1 hxy.2.1 hxy.2.2 ih

theorem stepLinks_sim2 (path : List Str) (L : Layout K) (dir : Dir K) {vs vs' : List (Str × List (Str × Block K))}
    (h : Sim2 vs vs') :
    OptRel Sim2 (allSome (stepLinks env ord fuel path L dir) vs) (allSome (stepLinks env ord' fuel path L dir) vs') := by
  obtain ⟨c, p, r⟩ := h
  exact OptRel.trans (allSome_perm p) (stepLinks_rel2 env ord ord' hord hord' fuel hv path L dir r)
    (fun x y z hxy hyz => ⟨y, hxy, hyz⟩)

end stage5

theorem stepLinks_key {env : Env K} {ord : Ord} {fuel : Nat} {path : List Str} {L : Layout K} {dir : Dir K}
    {v : Str × List (Str × Block K)} {r : Str × List (Str × Link)}
    (h : stepLinks env ord fuel path L dir v = some r) : r.1 = v.1 := by
  unfold stepLinks at h
  cases ha : allSome (subLink env ord fuel path L dir v.1) (ord.perm 3 v.2) with
  | none => rw [ha] at h; cases h
  | some ls => rw [ha] at h; cases h; rfl

/-! ### stage 8: the representative link of a step -/

theorem minEntry_mem {α : Type} {l : List (Str × α)} {m : Str × α} (h : minEntry l = some m) : m ∈ l := by
  induction l generalizing m with
  | nil => simp [minEntry] at h
  | cons e r ih =>
    simp only [minEntry] at h
    split at h
    · cases h; simp
    · rename_i m' hm'
      split at h
      · cases h; exact List.mem_cons_of_mem _ (ih hm')
      · cases h; simp

theorem minEntry_le {α : Type} {l : List (Str × α)} {m : Str × α} (h : minEntry l = some m) :
    ∀ e ∈ l, strLt e.1 m.1 = false := by
  induction l generalizing m with
  | nil => simp
  | cons e r ih =>
    simp only [minEntry] at h
    split at h
    · rename_i hnone
      cases h
      have : r = [] := by
        cases r with
        | nil => rfl
        | cons x xs => exact absurd hnone (minEntry_ne_none (by simp))
      subst this
      intro x hx
      simp at hx; subst hx
      exact strLt_irrefl _
    · rename_i m' hm'
      have ihm := ih hm'
      split at h
      · rename_i hlt
        cases h
        intro x hx
        simp only [List.mem_cons] at hx
        rcases hx with rfl | hx
        · exact strLt_asymm hlt
        · exact ihm x hx
      · rename_i hnlt
        cases h
        intro x hx
        simp only [List.mem_cons] at hx
        rcases hx with rfl | hx
        · exact strLt_irrefl _
        · cases hx' : strLt x.1 e.1 with
          | false => rfl
          | true =>
            exfalso
            have h1 := ihm x hx
            have hnlt' : strLt m'.1 e.1 = false := by simpa using hnlt
            cases hc : strLt e.1 m'.1 with
            | true => rw [strLt_trans hx' hc] at h1; cases h1
            | false =>
              have : e.1 = m'.1 := strLt_total hc hnlt'
              rw [this] at hx'
              rw [hx'] at h1; cases h1

/-- The representative link of a step (the entry with the smallest key id) does not depend on the
    order in which the step's links are enumerated. -/
theorem minEntry_perm {α : Type} {l l' : List (Str × α)} (hp : l.Perm l')
    (hnd : (l.map Prod.fst).Nodup) : minEntry l = minEntry l' := by
  have hnd' : (l'.map Prod.fst).Nodup := (hp.map Prod.fst).nodup_iff.mp hnd
  cases h : minEntry l with
  | none =>
    have : l = [] := by
      cases l with
      | nil => rfl
      | cons x xs => exact absurd h (minEntry_ne_none (by simp))
    subst this
    have : l' = [] := hp.symm.eq_nil
    subst this
    rfl
  | some m =>
    cases h' : minEntry l' with
    | none =>
      have : l' = [] := by
        cases l' with
        | nil => rfl
        | cons x xs => exact absurd h' (minEntry_ne_none (by simp))
      subst this
      have := hp.eq_nil
      subst this
      simp [minEntry] at h
    | some m' =>
      have hm := minEntry_mem h
      have hm' := minEntry_mem h'
      have h1 := minEntry_le h m' (hp.mem_iff.mpr hm')
      have h2 := minEntry_le h' m (hp.mem_iff.mp hm)
      have hk : m.1 = m'.1 := strLt_total h2 h1
      have : m = m' := by
        have e1 := lookup_of_mem hnd hm
        have e2 := lookup_of_mem hnd (hp.mem_iff.mpr hm')
        rw [hk] at e1
        rw [e1] at e2
        cases m; cases m'
        simp only at hk e2
        subst hk
        cases e2
        rfl
      rw [this]


/-! ### stage 7: agreement -/

/-- the agreement check, stated without any iteration order: every pair of links of a step with
    threshold ≥ 2 agrees -/
def agreeSpec (links : List (Str × List (Str × Link))) : List Step → Out Unit
  | [] => .ok ()
  | st :: rest =>
    if st.threshold ≤ 1 then agreeSpec links rest
    else
      match lookup st.name links with
      | none => .err 7
      | some per =>
        if per.length < st.threshold then .err 7
        else if per.isEmpty then .err 7
        else if per.all (fun e => per.all (fun e' => agree e.2 e'.2)) then agreeSpec links rest else .err 7

theorem checkAgreement_eq_spec (ord : Ord) (h : ord.Valid) (links : List (Str × List (Str × Link)))
    (steps : List Step) : checkAgreement ord links steps = agreeSpec links steps := by
  induction steps with
  | nil => rfl
  | cons st rest ih =>
    simp only [checkAgreement, agreeSpec]
    by_cases ht : st.threshold ≤ 1
    · simp only [ht, if_true]; exact ih
    · simp only [ht, if_false]
      cases hper : lookup st.name links with
      | none => rfl
      | some per =>
        simp only []
        by_cases hl : per.length < st.threshold
        · simp only [hl, if_true]
        · simp only [hl, if_false]
          have hperm := h 4 _ per
          cases hh : (ord.perm 4 per).head? with
          | none =>
            have e1 : ord.perm 4 per = [] := by cases hq : ord.perm 4 per <;> simp_all
            have e2 : per = [] := by rw [e1] at hperm; exact hperm.symm.eq_nil
            simp [e2]
          | some r =>
            obtain ⟨kid, ref⟩ := r
            have hmem : (kid, ref) ∈ per := by
              apply hperm.mem_iff.mp
              cases hq : ord.perm 4 per with
              | nil => rw [hq] at hh; simp at hh
              | cons x xs => rw [hq] at hh; simp at hh; subst hh; simp
            have hne : per.isEmpty = false := by
              cases per with
              | nil => simp at hmem
              | cons _ _ => rfl
            simp only [hne, Bool.false_eq_true, if_false]
            have hiff : per.all (fun e => agree e.2 ref) = per.all (fun e => per.all (fun e' => agree e.2 e'.2)) := by
              cases ha : per.all (fun e => agree e.2 ref) with
              | true =>
                symm
                rw [List.all_eq_true]
                intro e he
                rw [List.all_eq_true]
                intro e' he'
                have a1 := List.all_eq_true.mp ha e he
                have a2 := List.all_eq_true.mp ha e' he'
                simp only [agree, Bool.and_eq_true, decide_eq_true_eq] at a1 a2 ⊢
                exact ⟨a1.1.trans a2.1.symm, a1.2.trans a2.2.symm⟩
              | false =>
                symm
                cases hb : per.all (fun e => per.all (fun e' => agree e.2 e'.2)) with
                | false => rfl
                | true =>
                  exfalso
                  have : per.all (fun e => agree e.2 ref) = true := by
                    rw [List.all_eq_true]
                    intro e he
                    exact List.all_eq_true.mp (List.all_eq_true.mp hb e he) (kid, ref) hmem
                  rw [this] at ha; cases ha
            rw [hiff, ih]

theorem agreeSpec_congr {links links' : List (Str × List (Str × Link))}
    (h : ∀ k, OptRel (fun v v' => v.Perm v' ∧ KeysNodup v) (lookup k links) (lookup k links')) (steps : List Step) :
    agreeSpec links steps = agreeSpec links' steps := by
  induction steps with
  | nil => rfl
  | cons st rest ih =>
    simp only [agreeSpec]
    by_cases ht : st.threshold ≤ 1
    · simp only [ht, if_true]; exact ih
    · simp only [ht, if_false]
      have hk := h st.name
      cases h1 : lookup st.name links with
      | none =>
        rw [h1] at hk
        cases h2 : lookup st.name links' with
        | none => rfl
        | some per' => rw [h2] at hk; simp [OptRel] at hk
      | some per =>
        rw [h1] at hk
        cases h2 : lookup st.name links' with
        | none => rw [h2] at hk; simp [OptRel] at hk
        | some per' =>
          rw [h2] at hk
          simp only [OptRel] at hk
          have hp := hk.1
          have e1 : per.length = per'.length := hp.length_eq
          have e2 : per.isEmpty = per'.isEmpty := by
            cases per <;> cases per' <;> simp at e1 ⊢
          have e3 : per.all (fun e => per.all (fun e' => agree e.2 e'.2)) =
              per'.all (fun e => per'.all (fun e' => agree e.2 e'.2)) := by
            rw [hp.all_eq]
            congr 1
            funext e
            exact hp.all_eq
          simp only [e1, e2, e3, ih]

/-! ### stage 8: reduction as an all-or-nothing map -/

def redOne (v : Str × List (Str × Link)) : Option (Str × Link) := (minEntry v.2).map fun m => (v.1, m.2)

theorem reduceLinks_eq (links : List (Str × List (Str × Link))) : okPart (reduceLinks links) = allSome redOne links := by
  induction links with
  | nil => rfl
  | cons v rest ih =>
    obtain ⟨name, per⟩ := v
    rw [allSome_cons]
    simp only [reduceLinks, redOne]
    cases hm : minEntry per with
    | none => simp
    | some m =>
      obtain ⟨k, l⟩ := m
      simp only [Option.map_some, Option.bind_some]
      rw [← ih]
      cases reduceLinks rest <;> simp

theorem redOne_rel2 {c b : List (Str × List (Str × Link))} (h : Rel2 c b) : allSome redOne c = allSome redOne b := by
  induction h with
  | nil => rfl
  | @cons x y l l' h1 h2 h3 _ ih =>
    rw [allSome_cons, allSome_cons, ih]
    have : redOne x = redOne y := by
      unfold redOne
      rw [minEntry_perm h2 h3, h1]
    rw [this]

theorem reduceLinks_sim2 {links links' : List (Str × List (Str × Link))} (h : Sim2 links links') :
    OptRel List.Perm (okPart (reduceLinks links)) (okPart (reduceLinks links')) := by
  obtain ⟨c, p, r⟩ := h
  rw [reduceLinks_eq, reduceLinks_eq, ← redOne_rel2 r]
  exact allSome_perm p

theorem redOne_key {v : Str × List (Str × Link)} {r : Str × Link} (h : redOne v = some r) : r.1 = v.1 := by
  unfold redOne at h
  cases hm : minEntry v.2 with
  | none => rw [hm] at h; cases h
  | some m => rw [hm] at h; cases h; rfl

/-! ### stages 9 and 11: rules read the link table through `findLink` only -/

theorem findLink_artsTable (n : Str) (reduced : List (Str × Link)) :
    findLink n (artsTable reduced) = (lookup n reduced).map (·.arts) := by
  induction reduced with
  | nil => rfl
  | cons e r ih =>
    obtain ⟨k, l⟩ := e
    simp only [artsTable, List.map_cons, findLink, lookup]
    split
    · rfl
    · exact ih

section rulescongr
variable {t t' : List (Str × LinkArts)} (h : ∀ n, findLink n t = findLink n t')
include h

theorem verifyMatch_congr (pattern : Str) (inSrc : Option Str) (w : ArtKind) (inDst : Option Str) (from_ : Str)
    (arts : Artifacts) (queue : List Str) :
    verifyMatch pattern inSrc w inDst from_ arts queue t = verifyMatch pattern inSrc w inDst from_ arts queue t' := by
  unfold verifyMatch
  rw [h]

theorem applyRule_congr (rule : Rule) (arts : Artifacts) (c d m queue : List Str) :
    applyRule rule arts c d m queue t = applyRule rule arts c d m queue t' := by
  unfold applyRule
  cases rule <;> simp only []
  rw [verifyMatch_congr h]

theorem applyRules_congr (rules : List Rule) (arts : Artifacts) (c d m queue : List Str) :
    applyRules rules arts c d m t queue = applyRules rules arts c d m t' queue := by
  induction rules generalizing queue with
  | nil => rw [applyRules, applyRules]
  | cons rule rest ih =>
    rw [applyRules, applyRules]
    rw [applyRule_congr h]
    split
    · exact ih _
    · rfl
    · rfl

theorem applyRulesOnLink_congr (item : Item) : applyRulesOnLink item t = applyRulesOnLink item t' := by
  unfold applyRulesOnLink
  rw [h]
  split
  · rfl
  · simp only []
    rw [applyRules_congr h, applyRules_congr h]

end rulescongr

theorem itemRules_congr {reduced reduced' : List (Str × Link)} (h : ∀ n, lookup n reduced = lookup n reduced')
    (errc : Nat) (items : List Item) : itemRules errc reduced items = itemRules errc reduced' items := by
  have hf : ∀ n, findLink n (artsTable reduced) = findLink n (artsTable reduced') := by
    intro n; rw [findLink_artsTable, findLink_artsTable, h]
  induction items with
  | nil => rfl
  | cons it rest ih =>
    simp only [itemRules]
    rw [applyRulesOnLink_congr hf, ih]

/-! ### stages 10 and 12 -/

theorem runInspections_fst (env : Env K) (path : List Str) (insps : List Insp) (acc : List (Str × Link))
    (ev ev' : List Event) :
    (runInspections env path insps acc ev).1 = (runInspections env path insps acc ev').1 := by
  induction insps generalizing acc ev ev' with
  | nil => rfl
  | cons i rest ih =>
    simp only [runInspections]
    split
    · rfl
    · split
      · rfl
      · exact ih _ _ _

theorem summary_congr {L : Layout K} {reduced reduced' : List (Str × Link)} (h : ∀ n, lookup n reduced = lookup n reduced')
    (name : Str) : summary L reduced name = summary L reduced' name := by
  unfold summary
  split
  · rw [h, h]
  · rfl

/-! ### the success part of the pipeline, as one expression -/

def verifyOpt (env : Env K) (ord : Ord) (fuel : Nat) (path : List Str) (b : Block K) (keys : List K) (dir : Dir K)
    (name : Str) : Option Link :=
  (okPart (verifyBlockK env ord b keys.length keys)).bind fun m =>
  match m with
  | .link _ => none
  | .layout L =>
    if L.expires < env.now path then none else
    (okPart (loadLinks dir L.steps [])).bind fun loaded =>
    (okPart (verifyThresholds env ord L loaded L.steps [])).bind fun verified =>
    ((allSome (stepLinks env ord fuel path L dir) (ord.perm 2 verified)).map (extend [])).bind fun links =>
    (okPart (checkAgreement ord links L.steps)).bind fun _ =>
    (okPart (reduceLinks links)).bind fun reduced =>
    (okPart (itemRules 9 reduced (L.steps.map stepItem))).bind fun _ =>
    (okPart (runInspections env path L.inspect [] []).1).bind fun inspLinks =>
    (okPart (itemRules 11 (extend reduced inspLinks) (L.inspect.map inspItem))).bind fun _ =>
    okPart (summary L (extend reduced inspLinks) name)

theorem okPart_verify (env : Env K) (ord : Ord) (fuel : Nat) (path : List Str) (b : Block K) (keys : List K)
    (dir : Dir K) (name : Str) :
    okPart (verify env ord (fuel + 1) path b keys dir name).1 = verifyOpt env ord fuel path b keys dir name := by
  rw [verify]
  unfold verifyOpt
  split
  · rename_i c h; simp [h]
  · rename_i c h; simp [h]
  · rename_i l h; simp [h]
  · rename_i L h
    simp only [h, okPart_ok, Option.bind_some]
    split
    · simp
    · split
      · rename_i c h3; simp [h3]
      · rename_i c h3; simp [h3]
      · rename_i loaded h3
        simp only [h3, okPart_ok, Option.bind_some]
        split
        · rename_i c h4; simp [h4]
        · rename_i c h4; simp [h4]
        · rename_i verified h4
          simp only [h4, okPart_ok, Option.bind_some]
          have e5 := subLayouts_eq env ord fuel path L dir (ord.perm 2 verified) [] []
          split
          · rename_i c ev h5
            rw [h5] at e5
            simp only [okPart_err] at e5
            rw [← e5]; simp
          · rename_i c ev h5
            rw [h5] at e5
            simp only [okPart_panic] at e5
            rw [← e5]; simp
          · rename_i links ev h5
            rw [h5] at e5
            simp only [okPart_ok] at e5
            rw [← e5]
            simp only [Option.bind_some]
            split
            · rename_i c h7; simp [h7]
            · rename_i c h7; simp [h7]
            · rename_i h7
              simp only [h7, okPart_ok, Option.bind_some]
              split
              · rename_i c h8; simp [h8]
              · rename_i c h8; simp [h8]
              · rename_i reduced h8
                simp only [h8, okPart_ok, Option.bind_some]
                split
                · rename_i c h9; simp [h9]
                · rename_i c h9; simp [h9]
                · rename_i h9
                  simp only [h9, okPart_ok, Option.bind_some]
                  have e10 := runInspections_fst env path L.inspect [] ev []
                  split
                  · rename_i c ev' h10
                    rw [h10] at e10
                    simp only at e10
                    rw [← e10]; simp
                  · rename_i c ev' h10
                    rw [h10] at e10
                    simp only at e10
                    rw [← e10]; simp
                  · rename_i inspLinks ev' h10
                    rw [h10] at e10
                    simp only at e10
                    rw [← e10]
                    simp only [okPart_ok, Option.bind_some]
                    split
                    · rename_i c h11; simp [h11]
                    · rename_i c h11; simp [h11]
                    · rename_i h11
                      simp only [h11, okPart_ok, Option.bind_some]

theorem OptRel.of_eq_with {γ : Type} {a : Option γ} (P : γ → Prop) (h : ∀ x, a = some x → P x) :
    OptRel (fun x y => x = y ∧ P x) a a := by
  cases a with
  | none => trivial
  | some x => exact ⟨rfl, h x rfl⟩

theorem OptRel.and_left {γ δ : Type} {R : γ → δ → Prop} {a : Option γ} {b : Option δ} (h : OptRel R a b)
    (P : γ → Prop) (hp : ∀ x, a = some x → P x) : OptRel (fun x y => R x y ∧ P x) a b := by
  cases a <;> cases b <;> simp only [OptRel] at h ⊢
  exact ⟨h, hp _ rfl⟩

theorem OptRel.map {γ δ γ' δ' : Type} {R : γ → δ → Prop} {S : γ' → δ' → Prop} {a : Option γ} {b : Option δ}
    {f : γ → γ'} {g : δ → δ'} (h : OptRel R a b) (hf : ∀ x y, R x y → S (f x) (g y)) :
    OptRel S (a.map f) (b.map g) := by
  cases a <;> cases b <;> simp only [OptRel, Option.map_some, Option.map_none] at h ⊢
  exact hf _ _ h

/-- stage 5 of two runs: related verified tables give related link tables -/
theorem stage5_rel (env : Env K) (ord ord' : Ord) (hord : ord.Valid) (hord' : ord'.Valid) (fuel : Nat)
    (hv : ∀ path b keys dir name,
      okPart (verify env ord fuel path b keys dir name).1 = okPart (verify env ord' fuel path b keys dir name).1)
    (path : List Str) (L : Layout K) (dir : Dir K) {verified verified' : List (Str × List (Str × Block K))}
    (hr : Rel2 verified verified') (hn : KeysNodup verified) :
    OptRel (fun l l' => Sim2 l l' ∧ KeysNodup l)
      ((allSome (stepLinks env ord fuel path L dir) (ord.perm 2 verified)).map (extend []))
      ((allSome (stepLinks env ord' fuel path L dir) (ord'.perm 2 verified')).map (extend [])) := by
  have p1 := hord 2 _ verified
  have p2 := hord' 2 _ verified'
  obtain ⟨c, pc, rc⟩ := hr.perm_right p2.symm
  have hsim : Sim2 (ord.perm 2 verified) (ord'.perm 2 verified') := ⟨c, p1.trans pc, rc⟩
  have n1 : KeysNodup (ord.perm 2 verified) := (p1.map Prod.fst).nodup_iff.mpr hn
  have n2 : KeysNodup (ord'.perm 2 verified') := by
    have : KeysNodup verified' := by unfold KeysNodup; rw [← hr.keys]; exact hn
    exact (p2.map Prod.fst).nodup_iff.mpr this
  have hrel := stepLinks_sim2 env ord ord' hord hord' fuel hv path L dir hsim
  cases ha : allSome (stepLinks env ord fuel path L dir) (ord.perm 2 verified) with
  | none =>
    rw [ha] at hrel
    cases hb : allSome (stepLinks env ord' fuel path L dir) (ord'.perm 2 verified') with
    | none => simp [OptRel]
    | some r' => rw [hb] at hrel; simp [OptRel] at hrel
  | some r =>
    rw [ha] at hrel
    cases hb : allSome (stepLinks env ord' fuel path L dir) (ord'.perm 2 verified') with
    | none => rw [hb] at hrel; simp [OptRel] at hrel
    | some r' =>
      rw [hb] at hrel
      simp only [OptRel] at hrel
      have k1 : KeysNodup r := by
        unfold KeysNodup
        rw [allSome_keys (ka := Prod.fst) (fun a x h => stepLinks_key h) ha]; exact n1
      have k2 : KeysNodup r' := by
        unfold KeysNodup
        rw [allSome_keys (ka := Prod.fst) (fun a x h => stepLinks_key h) hb]; exact n2
      simp only [Option.map_some, OptRel, extend_nil k1, extend_nil k2]
      exact ⟨hrel, k1⟩

/-- **Order independence of the pipeline.**  For any two valid families of iteration orders the
    success part of the result - whether verification succeeds and, if so, the summary link - is the
    same. -/
theorem verify_order_independent (env : Env K) (ord ord' : Ord) (hord : ord.Valid) (hord' : ord'.Valid) :
    ∀ fuel path b keys dir name,
      okPart (verify env ord fuel path b keys dir name).1 = okPart (verify env ord' fuel path b keys dir name).1 := by
  intro fuel
  induction fuel with
  | zero => intro path b keys dir name; rw [verify_zero, verify_zero]
  | succ f ih =>
    intro path b keys dir name
    rw [okPart_verify, okPart_verify]
    unfold verifyOpt
    rw [verifyBlockK_order_independent env ord ord' hord hord']
    apply OptRel.eq
    apply OptRel.bind (R := Eq) (OptRel.of_eq (fun _ => rfl) rfl)
    intro m m' hm; subst hm
    cases m with
    | link l => simp [OptRel]
    | layout L =>
      simp only []
      split
      · simp [OptRel]
      · -- stage 3 (no iteration order involved); keep what is known about the loaded table
        apply OptRel.bind (OptRel.of_eq_with
          (fun loaded => ∀ n per, lookup n loaded = some per → KeysNodup per) ?_)
        · intro loaded loaded' hl
          obtain ⟨e, hl⟩ := hl; subst e
          -- stage 4
          apply OptRel.bind (OptRel.and_left (verifyThresholds_rel env ord ord' hord hord' L loaded hl L.steps [] [] .nil)
            KeysNodup ?_)
          · intro verified verified' hver
            -- stage 5
            apply OptRel.bind (stage5_rel env ord ord' hord hord' f ih path L dir hver.1 hver.2)
            intro links links' hlinks
            have hlook := hlinks.1.lookup hlinks.2
            -- stage 7
            rw [checkAgreement_eq_spec ord hord, checkAgreement_eq_spec ord' hord', agreeSpec_congr hlook]
            apply OptRel.bind (R := Eq) (OptRel.of_eq (fun _ => rfl) rfl)
            intro _ _ _
            -- stage 8
            apply OptRel.bind (OptRel.and_left (reduceLinks_sim2 hlinks.1) KeysNodup ?_)
            · intro reduced reduced' hred
              have hlk : ∀ n, lookup n reduced = lookup n reduced' := lookup_perm hred.1 hred.2
              -- stage 9
              rw [itemRules_congr hlk]
              apply OptRel.bind (R := Eq) (OptRel.of_eq (fun _ => rfl) rfl)
              intro _ _ _
              -- stage 10
              apply OptRel.bind (R := Eq) (OptRel.of_eq (fun _ => rfl) rfl)
              intro inspLinks _ e; subst e
              have hlk' : ∀ n, lookup n (extend reduced inspLinks) = lookup n (extend reduced' inspLinks) :=
                fun n => lookup_extend_congr inspLinks n (hlk n)
              -- stages 11 and 12
              rw [itemRules_congr hlk', summary_congr hlk']
              exact OptRel.of_eq (fun _ => rfl) rfl
            · intro reduced hred
              rw [reduceLinks_eq] at hred
              unfold KeysNodup
              rw [allSome_keys (ka := Prod.fst) (fun a x h => redOne_key h) hred]
              exact hlinks.2
          · intro verified hver
            exact (verifyThresholds_spec env ord L loaded L.steps [] (okPart_eq_some.mp hver)).2.2.2 (by simp)
        · intro loaded hload n per hlk
          have := loadLinks_spec dir L.steps [] (okPart_eq_some.mp hload) (n, per) (mem_of_lookup hlk)
          rcases this with h0 | h0
          · simp at h0
          · exact h0.2

/-! ### a structurally recursive evaluator of the success part

`verify` is defined by mutual recursion that Lean compiles through well-founded recursion, so closed
instances of it do not reduce in the kernel.  `verifyC` computes the same success part by structural
recursion on the fuel alone (the loops are `allSome`), which makes concrete scenarios checkable by
`decide` - used for the non-vacuity examples of the pipeline theorems. -/

section evaluator
variable (sub : List Str → Block K → List K → Dir K → Str → Option Link)

def subLinkC (path : List Str) (L : Layout K) (dir : Dir K) (stepName : Str) (e : Str × Block K) :
    Option (Str × Link) :=
  match e.2.signed with
  | .link l => some (e.1, l)
  | .layout _ =>
    match lookup e.1 L.keys with
    | none => none
    | some k =>
      (sub (path ++ [subName stepName e.1]) e.2 [k] (subDirOf dir (subName stepName e.1)) stepName).map
        fun l => (e.1, l)

def stepLinksC (ord : Ord) (path : List Str) (L : Layout K) (dir : Dir K) (v : Str × List (Str × Block K)) :
    Option (Str × List (Str × Link)) :=
  (allSome (subLinkC sub path L dir v.1) (ord.perm 3 v.2)).map fun ls => (v.1, extend [] ls)

def verifyOptC (env : Env K) (ord : Ord) (path : List Str) (b : Block K) (keys : List K) (dir : Dir K)
    (name : Str) : Option Link :=
  (okPart (verifyBlockK env ord b keys.length keys)).bind fun m =>
  match m with
  | .link _ => none
  | .layout L =>
    if L.expires < env.now path then none else
    (okPart (loadLinks dir L.steps [])).bind fun loaded =>
    (okPart (verifyThresholds env ord L loaded L.steps [])).bind fun verified =>
    ((allSome (stepLinksC sub ord path L dir) (ord.perm 2 verified)).map (extend [])).bind fun links =>
    (okPart (checkAgreement ord links L.steps)).bind fun _ =>
    (okPart (reduceLinks links)).bind fun reduced =>
    (okPart (itemRules 9 reduced (L.steps.map stepItem))).bind fun _ =>
    (okPart (runInspections env path L.inspect [] []).1).bind fun inspLinks =>
    (okPart (itemRules 11 (extend reduced inspLinks) (L.inspect.map inspItem))).bind fun _ =>
    okPart (summary L (extend reduced inspLinks) name)

end evaluator

def verifyC (env : Env K) (ord : Ord) : Nat → List Str → Block K → List K → Dir K → Str → Option Link
  | 0 => fun _ _ _ _ _ => none
  | fuel + 1 => verifyOptC (verifyC env ord fuel) env ord

theorem subLink_eq_C (env : Env K) (ord : Ord) (fuel : Nat) (path : List Str) (L : Layout K) (dir : Dir K)
    (stepName : Str) :
    subLink env ord fuel path L dir stepName =
      subLinkC (fun p b k d n => okPart (verify env ord fuel p b k d n).1) path L dir stepName := by
  funext e
  unfold subLink subLinkC
  split
  · rfl
  · split <;> rfl

theorem stepLinks_eq_C (env : Env K) (ord : Ord) (fuel : Nat) (path : List Str) (L : Layout K) (dir : Dir K) :
    stepLinks env ord fuel path L dir =
      stepLinksC (fun p b k d n => okPart (verify env ord fuel p b k d n).1) ord path L dir := by
  funext v
  unfold stepLinks stepLinksC
  rw [subLink_eq_C]

theorem verifyOpt_eq_C (env : Env K) (ord : Ord) (fuel : Nat) :
    verifyOpt env ord fuel = verifyOptC (fun p b k d n => okPart (verify env ord fuel p b k d n).1) env ord := by
  funext path b keys dir name
  unfold verifyOpt verifyOptC
  simp only [stepLinks_eq_C]

/-- the success part of `verify` is what the structural evaluator computes -/
theorem okPart_verify_eq_verifyC (env : Env K) (ord : Ord) (fuel : Nat) :
    ∀ path b keys dir name, okPart (verify env ord fuel path b keys dir name).1 = verifyC env ord fuel path b keys dir name := by
  induction fuel with
  | zero => intro path b keys dir name; rw [verify_zero]; rfl
  | succ f ih =>
    intro path b keys dir name
    rw [okPart_verify, verifyOpt_eq_C]
    have : (fun p b k d n => okPart (verify env ord f p b k d n).1) = verifyC env ord f := by
      funext p b k d n; exact ih p b k d n
    rw [this]
    rfl

theorem verify_ok_of_verifyC {env : Env K} {ord : Ord} {fuel : Nat} {path : List Str} {b : Block K} {keys : List K}
    {dir : Dir K} {name : Str} {s : Link} (h : verifyC env ord fuel path b keys dir name = some s) :
    (verify env ord fuel path b keys dir name).1 = .ok s := by
  rw [← okPart_eq_some, okPart_verify_eq_verifyC]; exact h

end InToto.Verify
