import InTotoModel.Model.Record
/-
  The directory walk of `Model/Record.lean` records exactly the regular files reachable under the
  directory it is started in - every one of them, and nothing else.

  `Reach display canon stack e`  — the specification: `e` is (the entry of) a regular file that is a
      child of the directory `canon` (possibly through links), or is reachable in the same way from a
      child directory - unless that child is a link that leads back to a directory being visited;
  `walkDir_sound`     — every recorded entry is reachable;
  `walkDir_complete`  — every reachable entry is recorded (when the walk succeeds).
-/
namespace InToto.Record
open InToto

def viaLink : Node → Bool
  | .link _ => true
  | _ => false

/-- what the walk contributes for one child `e` of the directory `canon` -/
def childOut (root : Node) (rootAbs : List Str) (fuel : Nat) (display : Str) (canon : List Str)
    (stack : List (List Str)) (e : Str × Node) : Out (List Entry) :=
  match resolve root rootAbs (fuel + 1) canon [e.1] with
  | none => .err 18
  | some (_, .file id content) => .ok [{ key := joinDisplay display e.1, fileId := id, content := content }]
  | some (cpath, .dir _) =>
    if viaLink e.2 && cpath ∈ (canon :: stack) then .ok []
    else walkDir root rootAbs fuel (joinDisplay display e.1) cpath (canon :: stack)
  | some (_, .link _) => .err 18

/-- accumulate the contributions of a list of children, stopping at the first error -/
def accum {α : Type} (step : α → Out (List Entry)) : List α → Out (List Entry) → Out (List Entry)
  | [], acc => acc
  | e :: rest, acc =>
    accum step rest (match acc with
      | .ok sofar => (match step e with
        | .ok more => .ok (sofar ++ more)
        | .err c => .err c
        | .panic s => .panic s)
      | other => other)

theorem accum_not_ok {α : Type} (step : α → Out (List Entry)) (es : List α) (a : Out (List Entry))
    (h : ∀ x, a ≠ .ok x) : ∀ r, accum step es a ≠ .ok r := by
  induction es generalizing a with
  | nil => simpa [accum] using h
  | cons e rest ih =>
    intro r
    simp only [accum]
    apply ih
    intro x
    cases a with
    | ok y => exact absurd rfl (h y)
    | err c => simp
    | panic s => simp

/-- a successful accumulation: every child contributed, and the result is the start plus exactly the
    contributions -/
theorem accum_ok {α : Type} (step : α → Out (List Entry)) (es : List α) (acc0 r : List Entry)
    (h : accum step es (.ok acc0) = .ok r) :
    (∀ e ∈ es, ∃ p, step e = .ok p) ∧
    (∀ x, x ∈ r ↔ x ∈ acc0 ∨ ∃ e ∈ es, ∃ p, step e = .ok p ∧ x ∈ p) := by
  induction es generalizing acc0 with
  | nil =>
    simp only [accum, Out.ok.injEq] at h
    subst h
    simp
  | cons e rest ih =>
    simp only [accum] at h
    cases hs : step e with
    | ok more =>
      rw [hs] at h
      obtain ⟨h1, h2⟩ := ih (acc0 ++ more) h
      refine ⟨?_, ?_⟩
      · intro e' he'
        rcases List.mem_cons.mp he' with rfl | hr
        · exact ⟨more, hs⟩
        · exact h1 e' hr
      · intro x
        rw [h2 x]
        constructor
        · rintro (hx | ⟨e', he', p, hp, hxp⟩)
          · rcases List.mem_append.mp hx with hx | hx
            · exact Or.inl hx
            · exact Or.inr ⟨e, by simp, more, hs, hx⟩
          · exact Or.inr ⟨e', by simp [he'], p, hp, hxp⟩
        · rintro (hx | ⟨e', he', p, hp, hxp⟩)
          · exact Or.inl (List.mem_append.mpr (Or.inl hx))
          · rcases List.mem_cons.mp he' with rfl | hr
            · rw [hs] at hp
              cases hp
              exact Or.inl (List.mem_append.mpr (Or.inr hxp))
            · exact Or.inr ⟨e', hr, p, hp, hxp⟩
    | err c =>
      rw [hs] at h
      exact absurd h (accum_not_ok step rest _ (by simp) r)
    | panic s =>
      rw [hs] at h
      exact absurd h (accum_not_ok step rest _ (by simp) r)

theorem foldl_eq_accum {α : Type} (f : Out (List Entry) → α → Out (List Entry)) (step : α → Out (List Entry))
    (hf : ∀ acc e, f acc e = (match acc with
      | .ok sofar => (match step e with
        | .ok more => .ok (sofar ++ more)
        | .err c => .err c
        | .panic s => .panic s)
      | other => other)) (es : List α) (a : Out (List Entry)) :
    es.foldl f a = accum step es a := by
  induction es generalizing a with
  | nil => rfl
  | cons e rest ih => simp only [List.foldl_cons, accum, ih, hf]

/-- the walk of a directory is the accumulation of its children's contributions -/
theorem walkDir_succ (root : Node) (rootAbs : List Str) (fuel : Nat) (display : Str) (canon : List Str)
    (stack : List (List Str)) (es : List (Str × Node)) (hn : nodeAt root canon = some (.dir es)) :
    walkDir root rootAbs (fuel + 1) display canon stack =
      accum (childOut root rootAbs fuel display canon stack) es (.ok []) := by
  rw [walkDir, hn]
  apply foldl_eq_accum
  intro acc e
  cases acc with
  | err c => rfl
  | panic s => rfl
  | ok sofar =>
    simp only [childOut]
    cases hr : resolve root rootAbs (fuel + 1) canon [e.1] with
    | none => rfl
    | some p =>
      obtain ⟨cpath, n⟩ := p
      cases n with
      | file id content => simp
      | link t => rfl
      | dir ds =>
        obtain ⟨name, nd⟩ := e
        have key : ∀ b : Bool,
            (if (b && decide (cpath ∈ canon :: stack)) = true then Out.ok sofar
              else match walkDir root rootAbs fuel (joinDisplay display name) cpath (canon :: stack) with
                | .ok more => .ok (sofar ++ more) | .err c => .err c | .panic s => .panic s) =
            (match (if (b && decide (cpath ∈ canon :: stack)) = true then Out.ok []
                else walkDir root rootAbs fuel (joinDisplay display name) cpath (canon :: stack)) with
              | .ok more => Out.ok (sofar ++ more) | .err c => .err c | .panic s => .panic s) := by
          intro b
          by_cases hc : (b && decide (cpath ∈ canon :: stack)) = true
          · rw [if_pos hc, if_pos hc]; simp
          · rw [if_neg hc, if_neg hc]
        cases nd with
        | file i c => exact key false
        | dir d => exact key false
        | link t => exact key true

/-- **Specification of the walk** (for a given amount of fuel `f` of the link resolver at each level:
    the walk at depth `f` resolves names with `f + 1` steps). -/
inductive Reach (root : Node) (rootAbs : List Str) : Nat → Str → List Str → List (List Str) → Entry → Prop
  | file {f : Nat} {display : Str} {canon : List Str} {stack : List (List Str)} {es : List (Str × Node)}
      {c : Str × Node} {cp : List Str} {id : Nat} {content : Bytes}
      (hn : nodeAt root canon = some (.dir es)) (hc : c ∈ es)
      (hr : resolve root rootAbs (f + 1) canon [c.1] = some (cp, .file id content)) :
      Reach root rootAbs (f + 1) display canon stack { key := joinDisplay display c.1, fileId := id, content := content }
  | sub {f : Nat} {display : Str} {canon : List Str} {stack : List (List Str)} {es ds : List (Str × Node)}
      {c : Str × Node} {cp : List Str} {e : Entry}
      (hn : nodeAt root canon = some (.dir es)) (hc : c ∈ es)
      (hr : resolve root rootAbs (f + 1) canon [c.1] = some (cp, .dir ds))
      (hcycle : ¬ (viaLink c.2 = true ∧ cp ∈ canon :: stack))
      (hsub : Reach root rootAbs f (joinDisplay display c.1) cp (canon :: stack) e) :
      Reach root rootAbs (f + 1) display canon stack e

/-- **Nothing else is recorded**: every entry of a successful walk is a reachable regular file. -/
theorem walkDir_sound (root : Node) (rootAbs : List Str) (fuel : Nat) :
    ∀ (display : Str) (canon : List Str) (stack : List (List Str)) (r : List Entry),
      walkDir root rootAbs fuel display canon stack = .ok r → ∀ x ∈ r, Reach root rootAbs fuel display canon stack x := by
  induction fuel with
  | zero => intro d c s r h; simp [walkDir] at h
  | succ f ih =>
    intro display canon stack r h x hx
    cases hn : nodeAt root canon with
    | none => rw [walkDir, hn] at h; simp at h
    | some n =>
      cases n with
      | file id content => rw [walkDir, hn] at h; simp at h
      | link t => rw [walkDir, hn] at h; simp at h
      | dir es =>
        rw [walkDir_succ root rootAbs f display canon stack es hn] at h
        obtain ⟨_, hmem⟩ := accum_ok _ es [] r h
        rcases (hmem x).mp hx with hx0 | ⟨c, hc, p, hp, hxp⟩
        · cases hx0
        · simp only [childOut] at hp
          cases hr : resolve root rootAbs (f + 1) canon [c.1] with
          | none => rw [hr] at hp; simp at hp
          | some q =>
            obtain ⟨cp, n⟩ := q
            rw [hr] at hp
            cases n with
            | file id content =>
              simp only [Out.ok.injEq] at hp
              subst hp
              simp only [List.mem_singleton] at hxp
              subst hxp
              exact Reach.file hn hc hr
            | link t => simp at hp
            | dir ds =>
              simp only at hp
              by_cases hcy : (viaLink c.2 && decide (cp ∈ canon :: stack)) = true
              · rw [if_pos hcy] at hp
                simp only [Out.ok.injEq] at hp
                subst hp
                cases hxp
              · rw [if_neg hcy] at hp
                have hcy' : ¬ (viaLink c.2 = true ∧ cp ∈ canon :: stack) := by
                  intro ⟨a, b⟩; apply hcy; simp [a, b]
                exact Reach.sub hn hc hr hcy' (ih _ _ _ p hp x hxp)

/-- **One entry for each reachable regular file**: a successful walk records every reachable file. -/
theorem walkDir_complete (root : Node) (rootAbs : List Str) (fuel : Nat) :
    ∀ (display : Str) (canon : List Str) (stack : List (List Str)) (r : List Entry),
      walkDir root rootAbs fuel display canon stack = .ok r →
      ∀ x, Reach root rootAbs fuel display canon stack x → x ∈ r := by
  induction fuel with
  | zero => intro d c s r h; simp [walkDir] at h
  | succ f ih =>
    intro display canon stack r h x hx
    cases hx with
    | file hn hc hr =>
      rename_i es c cp id content
      rw [walkDir_succ root rootAbs f display canon stack es hn] at h
      obtain ⟨_, hmem⟩ := accum_ok _ es [] r h
      refine (hmem _).mpr (Or.inr ⟨c, hc, [_], ?_, List.mem_singleton.mpr rfl⟩)
      simp only [childOut, hr]
    | sub hn hc hr hcycle hsub =>
      rename_i es ds c cp
      rw [walkDir_succ root rootAbs f display canon stack es hn] at h
      obtain ⟨hall, hmem⟩ := accum_ok _ es [] r h
      obtain ⟨p, hp⟩ := hall c hc
      refine (hmem _).mpr (Or.inr ⟨c, hc, p, hp, ?_⟩)
      simp only [childOut, hr] at hp
      have hcy : ¬ ((viaLink c.2 && decide (cp ∈ canon :: stack)) = true) := by
        intro hh
        simp only [Bool.and_eq_true, decide_eq_true_eq] at hh
        exact hcycle hh
      rw [if_neg hcy] at hp
      exact ih _ _ _ p hp x hsub

end InToto.Record
