import InTotoModel.Lemmas.Determinism
/-
  The sequence of inspection commands is determined (C13, C08).

  `verify_sublayouts` visits the steps in layout order and the evidence of a step in key-id order.
  In the model these are the iteration orders with `Sequential`: site 2 leaves the table alone
  (stage 4 built it in layout order), site 3 sorts by key id; the remaining sites (signature maps,
  loaded links, the reference link of the agreement check) stay arbitrary hash-map orders.

  `verify_sequential_deterministic`: for any two such families the *complete* result of `verify` is
  the same - the verdict, the error stage, the summary and the list of inspection commands started,
  in the order in which they were started, in failing runs too.  (Verdict and summary alone are
  independent of all six sites: `verify_order_independent`.)
-/
namespace InToto.Verify
open InToto InToto.Threshold InToto.Json

variable {K : Type}

/-! ### insertion sort by key id -/

section sort
variable {α : Type}

theorem insertKid_perm (e : Str × α) (l : List (Str × α)) : (insertKid e l).Perm (e :: l) := by
  induction l with
  | nil => exact List.Perm.refl _
  | cons x r ih =>
    simp only [insertKid]
    split
    · exact ((List.Perm.cons x ih).trans (List.Perm.swap e x r))
    · exact List.Perm.refl _

theorem sortKid_perm (l : List (Str × α)) : (sortKid l).Perm l := by
  induction l with
  | nil => exact List.Perm.refl _
  | cons e r ih => exact (insertKid_perm e (sortKid r)).trans (List.Perm.cons e ih)

/-- strictly increasing key ids -/
abbrev KidSorted (l : List (Str × α)) : Prop := l.Pairwise fun a b => strLt a.1 b.1 = true

theorem insertKid_sorted (e : Str × α) (l : List (Str × α)) (hs : KidSorted l) (hne : ∀ x ∈ l, x.1 ≠ e.1) :
    KidSorted (insertKid e l) := by
  induction l with
  | nil => simp [insertKid, KidSorted]
  | cons x r ih =>
    have hs' := List.pairwise_cons.mp hs
    simp only [insertKid]
    split
    · rename_i hlt
      refine List.pairwise_cons.mpr ⟨?_, ih hs'.2 (fun y hy => hne y (List.mem_cons_of_mem _ hy))⟩
      intro y hy
      have := (insertKid_perm e r).mem_iff.mp hy
      rcases List.mem_cons.mp this with rfl | hyr
      · exact hlt
      · exact hs'.1 y hyr
    · rename_i hnlt
      have hex : strLt e.1 x.1 = true := by
        cases hc : strLt e.1 x.1 with
        | true => rfl
        | false =>
          exfalso
          have hx : strLt x.1 e.1 = false := by simpa using hnlt
          exact hne x (by simp) (strLt_total hx hc)
      refine List.pairwise_cons.mpr ⟨?_, hs⟩
      intro y hy
      rcases List.mem_cons.mp hy with rfl | hyr
      · exact hex
      · exact strLt_trans hex (hs'.1 y hyr)

theorem sortKid_sorted (l : List (Str × α)) (hn : (l.map Prod.fst).Nodup) : KidSorted (sortKid l) := by
  induction l with
  | nil => simp [sortKid, KidSorted]
  | cons e r ih =>
    simp only [List.map_cons, List.nodup_cons] at hn
    simp only [sortKid]
    refine insertKid_sorted e _ (ih hn.2) ?_
    intro x hx heq
    apply hn.1
    have := (sortKid_perm r).mem_iff.mp hx
    exact List.mem_map.mpr ⟨x, this, heq⟩

/-- two lists with the same entries (distinct key ids) are visited in the same order -/
theorem sortKid_eq_of_perm {l l' : List (Str × α)} (hp : l.Perm l') (hn : (l.map Prod.fst).Nodup) :
    sortKid l = sortKid l' := by
  have hn' : (l'.map Prod.fst).Nodup := (hp.map Prod.fst).nodup_iff.mp hn
  apply List.Perm.eq_of_pairwise (le := fun a b => strLt a.1 b.1 = true)
  · intro a b _ _ h1 h2
    rw [strLt_asymm h1] at h2
    cases h2
  · exact sortKid_sorted l hn
  · exact sortKid_sorted l' hn'
  · exact ((sortKid_perm l).trans hp).trans (sortKid_perm l').symm

end sort

/-! ### the iteration orders of the code -/

/-- site 2 (the steps, for `verify_sublayouts`) keeps the layout order in which stage 4 filed them,
    site 3 (the evidence of one step) goes by key id -/
def Ord.Sequential (o : Ord) : Prop :=
  (∀ (α : Type) (l : List (Str × α)), o.perm 2 l = l) ∧ (∀ (α : Type) (l : List (Str × α)), o.perm 3 l = sortKid l)

theorem seqOrd_sequential (o : Ord) : (seqOrd o).Sequential :=
  ⟨fun _ _ => rfl, fun _ _ => rfl⟩

theorem seqOrd_valid {o : Ord} (h : o.Valid) : (seqOrd o).Valid := by
  intro site α l
  simp only [seqOrd]
  split
  · exact List.Perm.refl _
  · split
    · exact sortKid_perm l
    · exact h site α l

/-! ### stage 4 answers `ok` or `err 4` -/

theorem verifyThresholds_ok_or_err (env : Env K) (ord : Ord) (L : Layout K)
    (loaded : List (Str × List (Str × Block K))) (steps : List Step) (acc : List (Str × List (Str × Block K))) :
    (∃ v, verifyThresholds env ord L loaded steps acc = .ok v) ∨ verifyThresholds env ord L loaded steps acc = .err 4 := by
  induction steps generalizing acc with
  | nil => exact Or.inl ⟨acc, rfl⟩
  | cons st rest ih =>
    simp only [verifyThresholds]
    split
    · exact Or.inr rfl
    · exact ih _

/-! ### stage 5 under two sequential families of orders -/

theorem subLayoutsStep_congr (env : Env K) (ord ord' : Ord) (fuel : Nat)
    (hv : ∀ path b keys dir name, verify env ord fuel path b keys dir name = verify env ord' fuel path b keys dir name)
    (path : List Str) (L : Layout K) (dir : Dir K) (stepName : Str) (per : List (Str × Block K)) :
    ∀ (acc : List (Str × Link)) (ev : List Event),
      subLayoutsStep env ord fuel path L dir stepName per acc ev =
        subLayoutsStep env ord' fuel path L dir stepName per acc ev := by
  induction per with
  | nil => intro acc ev; conv => lhs; rw [subLayoutsStep]
           conv => rhs; rw [subLayoutsStep]
  | cons x rest ih =>
    intro acc ev
    obtain ⟨kid, b⟩ := x
    conv => lhs; rw [subLayoutsStep]
    conv => rhs; rw [subLayoutsStep]
    cases hb : b.signed with
    | link l => simp only; exact ih _ _
    | layout L' =>
      simp only
      cases hk : lookup kid L.keys with
      | none => rfl
      | some k =>
        simp only
        rw [hv]
        cases hr : verify env ord' fuel (path ++ [stepName ++ '.' :: prefix8 kid]) b [k]
            (subDirOf dir (stepName ++ '.' :: prefix8 kid)) stepName with
        | mk res ev' =>
          cases res with
          | ok l => simp only; exact ih _ _
          | err c => rfl
          | panic c => rfl

theorem subLayouts_congr (env : Env K) (ord ord' : Ord) (hseq : ord.Sequential) (hseq' : ord'.Sequential) (fuel : Nat)
    (hv : ∀ path b keys dir name, verify env ord fuel path b keys dir name = verify env ord' fuel path b keys dir name)
    (path : List Str) (L : Layout K) (dir : Dir K) {vs vs' : List (Str × List (Str × Block K))} (hr : Rel2 vs vs') :
    ∀ (acc : List (Str × List (Str × Link))) (ev : List Event),
      subLayouts env ord fuel path L dir vs acc ev = subLayouts env ord' fuel path L dir vs' acc ev := by
  induction hr with
  | nil => intro acc ev; conv => lhs; rw [subLayouts]
           conv => rhs; rw [subLayouts]
  | @cons a b l l' hk hp hn _ ih =>
    intro acc ev
    obtain ⟨stepName, per⟩ := a
    obtain ⟨stepName', per'⟩ := b
    simp only at hk hp hn
    subst hk
    conv => lhs; rw [subLayouts]
    conv => rhs; rw [subLayouts]
    rw [hseq.2, hseq'.2, ← sortKid_eq_of_perm hp hn,
      subLayoutsStep_congr env ord ord' fuel hv path L dir stepName (sortKid per) [] ev]
    cases hs : subLayoutsStep env ord' fuel path L dir stepName (sortKid per) [] ev with
    | mk res ev' =>
      cases res with
      | ok pl => simp only; exact ih _ _
      | err c => rfl
      | panic c => rfl

/-! ### the whole pipeline -/

/-- **The complete result is determined.**  Under any two families of iteration orders that visit
    delegated evidence the way the code does, `verify` returns the same outcome (value, or error with
    its stage) and the same sequence of inspection commands. -/
theorem verify_sequential_deterministic (env : Env K) (ord ord' : Ord) (hord : ord.Valid) (hord' : ord'.Valid)
    (hseq : ord.Sequential) (hseq' : ord'.Sequential) :
    ∀ fuel path b keys dir name,
      verify env ord fuel path b keys dir name = verify env ord' fuel path b keys dir name := by
  intro fuel
  induction fuel with
  | zero => intro path b keys dir name; rw [verify_zero, verify_zero]
  | succ f ih =>
    intro path b keys dir name
    conv => lhs; rw [verify]
    conv => rhs; rw [verify]
    rw [verifyBlockK_order_independent env ord ord' hord hord']
    cases h1 : verifyBlockK env ord' b keys.length keys with
    | err c => rfl
    | panic c => rfl
    | ok m =>
      cases m with
      | link l => rfl
      | layout L =>
        simp only
        by_cases hexp : L.expires < env.now path
        · simp only [hexp, if_true]
        · simp only [hexp, if_false]
          cases h3 : loadLinks dir L.steps [] with
          | err c => rfl
          | panic c => rfl
          | ok loaded =>
            simp only
            have hl : ∀ n per, lookup n loaded = some per → KeysNodup per := by
              intro n per hlk
              have := loadLinks_spec dir L.steps [] h3 (n, per) (mem_of_lookup hlk)
              rcases this with h0 | h0
              · simp at h0
              · exact h0.2
            have hrel := verifyThresholds_rel env ord ord' hord hord' L loaded hl L.steps [] [] .nil
            rcases verifyThresholds_ok_or_err env ord L loaded L.steps [] with ⟨v, e4⟩ | e4 <;>
              rcases verifyThresholds_ok_or_err env ord' L loaded L.steps [] with ⟨v', e4'⟩ | e4'
            · rw [e4, e4'] at hrel
              simp only [okPart, OptRel] at hrel
              rw [e4, e4']
              simp only
              rw [hseq.1, hseq'.1, subLayouts_congr env ord ord' hseq hseq' f ih path L dir hrel [] []]
              simp only [checkAgreement_eq_spec ord hord, checkAgreement_eq_spec ord' hord']
            · rw [e4, e4'] at hrel; simp [okPart, OptRel] at hrel
            · rw [e4, e4'] at hrel; simp [okPart, OptRel] at hrel
            · rw [e4, e4']

/-- in particular the list of inspection commands that were started, in order -/
theorem inspection_sequence_determined (env : Env K) (ord ord' : Ord) (hord : ord.Valid) (hord' : ord'.Valid)
    (hseq : ord.Sequential) (hseq' : ord'.Sequential) (fuel : Nat) (path : List Str) (b : Block K) (keys : List K)
    (dir : Dir K) (name : Str) :
    (verify env ord fuel path b keys dir name).2 = (verify env ord' fuel path b keys dir name).2 := by
  rw [verify_sequential_deterministic env ord ord' hord hord' hseq hseq']

end InToto.Verify
