import InTotoModel.Model.Codec
import InTotoModel.Lemmas.Wire
import InTotoModel.Props.C12
/-
  Round trip and faithfulness of the document codecs of Model/Codec.lean.
-/
namespace InToto.Wire
open InToto InToto.Rules InToto.KeyId

/-! ### hex: the reader accepts exactly what the writer writes -/

theorem hexVal_inv {c : Char} {x : Nat} (h : hexVal c = some x) : x < 16 ∧ hexNibble x = c := by
  unfold hexVal at h
  split at h
  · rename_i hc
    cases h
    simp only [Bool.and_eq_true, decide_eq_true_eq] at hc
    refine ⟨by omega, ?_⟩
    unfold hexNibble
    rw [if_pos (by omega)]
    have : 48 + (c.toNat - 48) = c.toNat := by omega
    rw [this]
    exact Char.ofNat_toNat c
  · split at h
    · rename_i hc
      cases h
      simp only [Bool.and_eq_true, decide_eq_true_eq] at hc
      refine ⟨by omega, ?_⟩
      unfold hexNibble
      rw [if_neg (by omega)]
      have : 87 + (c.toNat - 87) = c.toNat := by omega
      rw [this]
      exact Char.ofNat_toNat c
    · cases h

theorem hexEncode_hexDecode : ∀ (s : Str) (b : Bytes), hexDecode s = some b → hexEncode b = s
  | [], b, h => by simp only [hexDecode] at h; cases h; rfl
  | [_], b, h => by simp [hexDecode] at h
  | a :: c :: r, b, h => by
    simp only [hexDecode] at h
    split at h
    · rename_i x y rest hx hy hr
      cases h
      have ⟨lx, ex⟩ := hexVal_inv hx
      have ⟨ly, ey⟩ := hexVal_inv hy
      have ih := hexEncode_hexDecode r rest hr
      have hb : (UInt8.ofNat (x * 16 + y)).toNat = x * 16 + y := by
        simp only [UInt8.toNat_ofNat']
        omega
      simp only [hexEncode, hb, ih]
      have e1 : (x * 16 + y) / 16 = x := by omega
      have e2 : (x * 16 + y) % 16 = y := by omega
      rw [e1, e2, ex, ey]
    · cases h

/-! ### all-or-nothing maps -/

section allOpt
variable {α β : Type}

theorem allOpt_map_of_inv {f : α → β} {g : β → Option α} {l : List α} (h : ∀ a ∈ l, g (f a) = some a) :
    allOpt g (l.map f) = some l := by
  induction l with
  | nil => rfl
  | cons a r ih =>
    simp only [List.map_cons, allOpt, h a (by simp), ih (fun x hx => h x (List.mem_cons_of_mem _ hx))]

theorem map_of_allOpt_inv {f : α → β} {g : β → Option α} {l : List β} {r : List α}
    (hinv : ∀ b a, g b = some a → f a = b) (h : allOpt g l = some r) : r.map f = l := by
  induction l generalizing r with
  | nil => simp only [allOpt] at h; cases h; rfl
  | cons b rest ih =>
    simp only [allOpt] at h
    split at h
    · cases h
    · rename_i a ha
      split at h
      · cases h
      · rename_i as has
        cases h
        simp only [List.map_cons, hinv b a ha, ih has]

end allOpt

/-! ### artifacts -/

/-- digests as the types allow them: only the two algorithm names that can be map keys -/
def DigestWF (d : Digest) : Prop := ∀ p ∈ d, algOk p.1 = true
def ArtsWF (a : Artifacts) : Prop := ∀ p ∈ a, DigestWF p.2

theorem digest_round_trip {d : Digest} (h : DigestWF d) : digestOfJson (digestToJson d) = some d := by
  unfold digestOfJson digestToJson
  apply allOpt_map_of_inv
  intro p hp
  simp only [digestEntryOfJson, h p hp, if_true, c12_hex_round_trip, Option.map_some]

theorem arts_round_trip {a : Artifacts} (h : ArtsWF a) : artsOfJson (artsToJson a) = some a := by
  unfold artsOfJson artsToJson
  apply allOpt_map_of_inv
  intro p hp
  simp only [digest_round_trip (h p hp), Option.map_some]

theorem strMap_round_trip (m : List (Str × Str)) : strMapOfJson (strMapToJson m) = some m := by
  unfold strMapOfJson strMapToJson
  apply allOpt_map_of_inv
  intro p _
  rfl

/-- the digest reader is faithful: what it accepts is exactly the encoding of what it returns -/
theorem digest_faithful {v : JV} {d : Digest} (h : digestOfJson v = some d) : digestToJson d = v ∧ DigestWF d := by
  unfold digestOfJson at h
  split at h
  · rename_i kvs
    have hinv : ∀ (b : Str × JV) (a : Str × Bytes), digestEntryOfJson b = some a →
        (fun p : Str × Bytes => (p.1, JV.str (hexEncode p.2))) a = b ∧ algOk a.1 = true := by
      intro b a hb
      unfold digestEntryOfJson at hb
      split at hb
      · rename_i hok
        split at hb
        · rename_i s hs
          cases hd : hexDecode s with
          | none => rw [hd] at hb; cases hb
          | some bytes =>
            rw [hd] at hb
            cases hb
            obtain ⟨b1, b2⟩ := b
            simp only at hs hok ⊢
            subst hs
            rw [hexEncode_hexDecode s bytes hd]
            exact ⟨rfl, hok⟩
        · cases hb
      · cases hb
    refine ⟨?_, ?_⟩
    · unfold digestToJson
      rw [map_of_allOpt_inv (fun b a hb => (hinv b a hb).1) h]
    · -- every returned entry came from an accepted member
      clear hinv
      induction kvs generalizing d with
      | nil => simp only [allOpt] at h; cases h; intro p hp; simp at hp
      | cons b rest ih =>
        simp only [allOpt] at h
        split at h
        · cases h
        · rename_i a ha
          split at h
          · cases h
          · rename_i as has
            cases h
            intro p hp
            simp only [List.mem_cons] at hp
            rcases hp with rfl | hp
            · unfold digestEntryOfJson at ha
              split at ha
              · rename_i hok
                split at ha
                · rename_i s hs
                  cases hd : hexDecode s with
                  | none => rw [hd] at ha; cases ha
                  | some bytes => rw [hd] at ha; cases ha; exact hok
                · cases ha
              · cases ha
            · exact ih has p hp
  · cases h

theorem arts_faithful {v : JV} {a : Artifacts} (h : artsOfJson v = some a) : artsToJson a = v := by
  unfold artsOfJson at h
  split at h
  · rename_i kvs
    unfold artsToJson
    rw [map_of_allOpt_inv (f := fun p : Str × Digest => (p.1, digestToJson p.2)) ?_ h]
    intro b x hb
    obtain ⟨b1, b2⟩ := b
    cases hd : digestOfJson b2 with
    | none => simp [hd] at hb
    | some d =>
      simp only [hd, Option.map_some, Option.some.injEq] at hb
      subst hb
      simp only [(digest_faithful hd).1]
  · cases h

theorem strMap_faithful {v : JV} {m : List (Str × Str)} (h : strMapOfJson v = some m) : strMapToJson m = v := by
  unfold strMapOfJson at h
  split at h
  · rename_i kvs
    unfold strMapToJson
    rw [map_of_allOpt_inv (f := fun p : Str × Str => (p.1, JV.str p.2)) ?_ h]
    intro b x hb
    obtain ⟨b1, b2⟩ := b
    cases b2 <;> simp at hb
    subst hb
    rfl
  · cases h

theorem strsOfJson_faithful {xs : List JV} {l : List Str} (h : strsOfJson xs = some l) : l.map JV.str = xs := by
  induction xs generalizing l with
  | nil => simp only [strsOfJson] at h; cases h; rfl
  | cons x rest ih =>
    cases x <;> simp only [strsOfJson] at h <;> try cases h
    rename_i s
    cases hr : strsOfJson rest with
    | none => rw [hr] at h; cases h
    | some r => rw [hr] at h; cases h; simp [ih hr]

theorem command_faithful {v : JV} {c : List Str} (h : commandOfJson v = some c) : commandToJson c = v := by
  unfold commandOfJson at h
  split at h
  · unfold commandToJson; rw [strsOfJson_faithful h]
  · cases h

/-! ### link -/

def LinkW.WF (l : LinkW) : Prop := ArtsWF l.materials ∧ ArtsWF l.products ∧ l.byproducts.WF

theorem link_round_trip (l : LinkW) (h : l.WF) : linkOfJson (linkToJson l) = some l := by
  obtain ⟨hm, hp, hb⟩ := h
  obtain ⟨name, mats, prods, env, bp, cmd⟩ := l
  simp only at hm hp hb
  simp only [linkOfJson, linkToJson, req]
  have g1 : ∀ (a b c d e f g : JV), getField kType [(kType, a), (kName, b), (kMaterials, c), (kProducts, d),
      (kEnvironment, e), (kByproducts, f), (kCommand, g)] = some a := fun _ _ _ _ _ _ _ => rfl
  have g2 : ∀ (a b c d e f g : JV), getField kName [(kType, a), (kName, b), (kMaterials, c), (kProducts, d),
      (kEnvironment, e), (kByproducts, f), (kCommand, g)] = some b := fun _ _ _ _ _ _ _ => rfl
  have g3 : ∀ (a b c d e f g : JV), getField kMaterials [(kType, a), (kName, b), (kMaterials, c), (kProducts, d),
      (kEnvironment, e), (kByproducts, f), (kCommand, g)] = some c := fun _ _ _ _ _ _ _ => rfl
  have g4 : ∀ (a b c d e f g : JV), getField kProducts [(kType, a), (kName, b), (kMaterials, c), (kProducts, d),
      (kEnvironment, e), (kByproducts, f), (kCommand, g)] = some d := fun _ _ _ _ _ _ _ => rfl
  have g5 : ∀ (a b c d e f g : JV), getField kEnvironment [(kType, a), (kName, b), (kMaterials, c), (kProducts, d),
      (kEnvironment, e), (kByproducts, f), (kCommand, g)] = some e := fun _ _ _ _ _ _ _ => rfl
  have g6 : ∀ (a b c d e f g : JV), getField kByproducts [(kType, a), (kName, b), (kMaterials, c), (kProducts, d),
      (kEnvironment, e), (kByproducts, f), (kCommand, g)] = some f := fun _ _ _ _ _ _ _ => rfl
  have g7 : ∀ (a b c d e f g : JV), getField kCommand [(kType, a), (kName, b), (kMaterials, c), (kProducts, d),
      (kEnvironment, e), (kByproducts, f), (kCommand, g)] = some g := fun _ _ _ _ _ _ _ => rfl
  simp only [g1, g2, g3, g4, g5, g6, g7, Option.bind_some, decStr, arts_round_trip hm, arts_round_trip hp,
    byproducts_round_trip _ hb, command_round_trip]
  cases env with
  | none => simp [envToJson, optDecode]
  | some m =>
    simp only [envToJson, strMapToJson, optDecode]
    have := strMap_round_trip m
    simp only [strMapToJson] at this
    simp [this]

theorem optDecode_some {α : Type} {dec : JV → Option α} {o : Option JV} {a : α}
    (h : optDecode dec o = some (some a)) : ∃ v, o = some v ∧ dec v = some a := by
  cases o with
  | none => simp [optDecode] at h
  | some v =>
    refine ⟨v, rfl, ?_⟩
    cases v <;> simp only [optDecode, Option.map_eq_some_iff, Option.some.injEq] at h <;>
      first | (obtain ⟨x, hx, e⟩ := h; cases e; exact hx) | cases h

theorem optDecode_none {α : Type} {dec : JV → Option α} {o : Option JV}
    (h : optDecode dec o = some none) : o = none ∨ o = some .null := by
  cases o with
  | none => exact Or.inl rfl
  | some v =>
    cases v <;> simp only [optDecode, Option.map_eq_some_iff] at h <;>
      first | exact Or.inr rfl | (obtain ⟨x, _, e⟩ := h; cases e)

/-- the link reader is faithful: the members it reads are, verbatim, the encoding of the fields it
    returns (for `environment`: absent or `null` is read as none) -/
theorem link_faithful {kvs : List (Str × JV)} {l : LinkW} (h : linkOfJson (.obj kvs) = some l) :
    getField kName kvs = some (.str l.name) ∧
    getField kMaterials kvs = some (artsToJson l.materials) ∧
    getField kProducts kvs = some (artsToJson l.products) ∧
    getField kCommand kvs = some (commandToJson l.command) ∧
    (∀ m, l.env = some m → getField kEnvironment kvs = some (strMapToJson m)) ∧
    (l.env = none → getField kEnvironment kvs = none ∨ getField kEnvironment kvs = some .null) := by
  simp only [linkOfJson, req, Option.bind_eq_some_iff] at h
  obtain ⟨t, ⟨v1, h1, hd1⟩, name, ⟨v2, h2, hd2⟩, mats, ⟨v3, h3, hd3⟩, prods, ⟨v4, h4, hd4⟩, env, hd5,
    bp, ⟨v6, h6, hd6⟩, cmd, ⟨v7, h7, hd7⟩, h⟩ := h
  simp only [Option.some.injEq] at h
  subst h
  simp only [h2, h3, h4, h7]
  have e2 : v2 = .str name := by cases v2 <;> simp [decStr] at hd2; rw [hd2]
  refine ⟨by rw [e2], by rw [arts_faithful hd3], by rw [arts_faithful hd4], by rw [command_faithful hd7], ?_, ?_⟩
  · intro m hm
    cases hm
    obtain ⟨v, hv, hd⟩ := optDecode_some hd5
    rw [hv, strMap_faithful hd]
  · intro hn
    cases hn
    exact optDecode_none hd5

/-! ### step and inspection -/

theorem rules_round_trip (rs : List Rule) : rulesOfJson (rulesToJson rs) = some rs := by
  unfold rulesOfJson rulesToJson
  exact allOpt_map_of_inv (fun r _ => rule_round_trip r)

theorem ruleOfJson_faithful {v : JV} {r : Rule} (h : ruleOfJson v = some r) : ruleToJson r = v := by
  unfold ruleOfJson at h
  split at h
  · rename_i xs
    simp only [Option.bind_eq_some_iff] at h
    obtain ⟨toks, ht, hr⟩ := h
    unfold ruleToJson
    rw [rule_reader_faithful toks r hr, strsOfJson_faithful ht]
  · cases h

theorem rules_faithful {v : JV} {rs : List Rule} (h : rulesOfJson v = some rs) : rulesToJson rs = v := by
  unfold rulesOfJson at h
  split at h
  · unfold rulesToJson
    rw [map_of_allOpt_inv (fun b a hb => ruleOfJson_faithful hb) h]
  · cases h

theorem keyIds_round_trip {ks : List Str} (h : ∀ k ∈ ks, keyIdOk k = true) : keyIdsOfJson (keyIdsToJson ks) = some ks := by
  unfold keyIdsOfJson keyIdsToJson
  apply allOpt_map_of_inv
  intro k hk
  simp [keyIdOfJson, h k hk]

theorem keyIdOfJson_faithful {v : JV} {k : Str} (h : keyIdOfJson v = some k) : JV.str k = v ∧ keyIdOk k = true := by
  unfold keyIdOfJson at h
  split at h
  · split at h
    · rename_i hk; cases h; exact ⟨rfl, hk⟩
    · cases h
  · cases h

theorem keyIds_faithful {v : JV} {ks : List Str} (h : keyIdsOfJson v = some ks) : keyIdsToJson ks = v := by
  unfold keyIdsOfJson at h
  split at h
  · unfold keyIdsToJson
    rw [map_of_allOpt_inv (fun b a hb => (keyIdOfJson_faithful hb).1) h]
  · cases h

theorem decU32_faithful {v : JV} {n : Nat} (h : decU32 v = some n) : JV.num (.int n) = v := by
  unfold decU32 at h
  split at h
  · rename_i i
    split at h
    · rename_i hi; cases h
      have : ((i.toNat : Nat) : Int) = i := Int.toNat_of_nonneg hi.1
      rw [this]
    · cases h
  · cases h

def StepW.WF (s : StepW) : Prop := s.threshold < 2 ^ 32 ∧ ∀ k ∈ s.pubkeys, keyIdOk k = true

section stepfields
variable (a b c d e f g : JV)
theorem sg1 : getField kType [(kType, a), (kThreshold, b), (kName, c), (kExpMaterials, d),
    (kExpProducts, e), (kPubkeys, f), (kExpCommand, g)] = some a := rfl
theorem sg2 : getField kThreshold [(kType, a), (kThreshold, b), (kName, c), (kExpMaterials, d),
    (kExpProducts, e), (kPubkeys, f), (kExpCommand, g)] = some b := rfl
theorem sg3 : getField kName [(kType, a), (kThreshold, b), (kName, c), (kExpMaterials, d),
    (kExpProducts, e), (kPubkeys, f), (kExpCommand, g)] = some c := rfl
theorem sg4 : getField kExpMaterials [(kType, a), (kThreshold, b), (kName, c), (kExpMaterials, d),
    (kExpProducts, e), (kPubkeys, f), (kExpCommand, g)] = some d := rfl
theorem sg5 : getField kExpProducts [(kType, a), (kThreshold, b), (kName, c), (kExpMaterials, d),
    (kExpProducts, e), (kPubkeys, f), (kExpCommand, g)] = some e := rfl
theorem sg6 : getField kPubkeys [(kType, a), (kThreshold, b), (kName, c), (kExpMaterials, d),
    (kExpProducts, e), (kPubkeys, f), (kExpCommand, g)] = some f := rfl
theorem sg7 : getField kExpCommand [(kType, a), (kThreshold, b), (kName, c), (kExpMaterials, d),
    (kExpProducts, e), (kPubkeys, f), (kExpCommand, g)] = some g := rfl
end stepfields

theorem decU32_nat {n : Nat} (ht : n < 2 ^ 32) : decU32 (.num (.int (n : Int))) = some n := by
  unfold decU32
  have h1 : (0 : Int) ≤ n := by omega
  have h2 : (n : Int) < 4294967296 := by omega
  simp [h1, h2]

theorem decStr_str (s : Str) : decStr (.str s) = some s := rfl

theorem step_round_trip (s : StepW) (h : s.WF) : stepOfJson (stepToJson s) = some s := by
  obtain ⟨ht, hk⟩ := h
  obtain ⟨typ, name, threshold, em, ep, pk, cmd⟩ := s
  simp only at ht hk
  simp only [stepOfJson, stepToJson, req]
  rw [sg1, sg2, sg3, sg4, sg5, sg6, sg7]
  rw [Option.bind_some, decStr_str, Option.bind_some]
  rw [Option.bind_some, decU32_nat ht, Option.bind_some]
  rw [Option.bind_some, decStr_str, Option.bind_some]
  rw [Option.bind_some, rules_round_trip, Option.bind_some]
  rw [Option.bind_some, rules_round_trip, Option.bind_some]
  rw [Option.bind_some, keyIds_round_trip hk, Option.bind_some]
  rw [Option.bind_some, command_round_trip, Option.bind_some]

theorem step_faithful {kvs : List (Str × JV)} {s : StepW} (h : stepOfJson (.obj kvs) = some s) :
    getField kType kvs = some (.str s.typ) ∧
    getField kName kvs = some (.str s.name) ∧
    getField kThreshold kvs = some (.num (.int s.threshold)) ∧
    getField kExpMaterials kvs = some (rulesToJson s.expMaterials) ∧
    getField kExpProducts kvs = some (rulesToJson s.expProducts) ∧
    getField kPubkeys kvs = some (keyIdsToJson s.pubkeys) ∧
    getField kExpCommand kvs = some (commandToJson s.expCommand) := by
  simp only [stepOfJson, req, Option.bind_eq_some_iff] at h
  obtain ⟨t, ⟨v1, h1, hd1⟩, th, ⟨v2, h2, hd2⟩, name, ⟨v3, h3, hd3⟩, em, ⟨v4, h4, hd4⟩, ep, ⟨v5, h5, hd5⟩,
    pk, ⟨v6, h6, hd6⟩, cmd, ⟨v7, h7, hd7⟩, h⟩ := h
  simp only [Option.some.injEq] at h
  subst h
  simp only [h1, h2, h3, h4, h5, h6, h7]
  have e1 : v1 = .str t := by cases v1 <;> simp [decStr] at hd1; rw [hd1]
  have e3 : v3 = .str name := by cases v3 <;> simp [decStr] at hd3; rw [hd3]
  exact ⟨by rw [e1], by rw [e3], by rw [decU32_faithful hd2], by rw [rules_faithful hd4], by rw [rules_faithful hd5],
    by rw [keyIds_faithful hd6], by rw [command_faithful hd7]⟩

set_option maxRecDepth 16384 in
theorem insp_round_trip (i : InspW) : inspOfJson (inspToJson i) = some i := by
  obtain ⟨typ, name, em, ep, run⟩ := i
  simp only [inspOfJson, inspToJson, req]
  have g1 : ∀ (a b c d e : JV), getField kType [(kType, a), (kName, b), (kExpMaterials, c), (kExpProducts, d),
      (kRun, e)] = some a := fun _ _ _ _ _ => rfl
  have g2 : ∀ (a b c d e : JV), getField kName [(kType, a), (kName, b), (kExpMaterials, c), (kExpProducts, d),
      (kRun, e)] = some b := fun _ _ _ _ _ => rfl
  have g3 : ∀ (a b c d e : JV), getField kExpMaterials [(kType, a), (kName, b), (kExpMaterials, c), (kExpProducts, d),
      (kRun, e)] = some c := fun _ _ _ _ _ => rfl
  have g4 : ∀ (a b c d e : JV), getField kExpProducts [(kType, a), (kName, b), (kExpMaterials, c), (kExpProducts, d),
      (kRun, e)] = some d := fun _ _ _ _ _ => rfl
  have g5 : ∀ (a b c d e : JV), getField kRun [(kType, a), (kName, b), (kExpMaterials, c), (kExpProducts, d),
      (kRun, e)] = some e := fun _ _ _ _ _ => rfl
  simp only [g1, g2, g3, g4, g5, Option.bind_some, decStr, rules_round_trip, command_round_trip]

theorem insp_faithful {kvs : List (Str × JV)} {i : InspW} (h : inspOfJson (.obj kvs) = some i) :
    getField kType kvs = some (.str i.typ) ∧
    getField kName kvs = some (.str i.name) ∧
    getField kExpMaterials kvs = some (rulesToJson i.expMaterials) ∧
    getField kExpProducts kvs = some (rulesToJson i.expProducts) ∧
    getField kRun kvs = some (commandToJson i.run) := by
  simp only [inspOfJson, req, Option.bind_eq_some_iff] at h
  obtain ⟨t, ⟨v1, h1, hd1⟩, name, ⟨v2, h2, hd2⟩, em, ⟨v3, h3, hd3⟩, ep, ⟨v4, h4, hd4⟩, run, ⟨v5, h5, hd5⟩, h⟩ := h
  simp only [Option.some.injEq] at h
  subst h
  simp only [h1, h2, h3, h4, h5]
  have e1 : v1 = .str t := by cases v1 <;> simp [decStr] at hd1; rw [hd1]
  have e2 : v2 = .str name := by cases v2 <;> simp [decStr] at hd2; rw [hd2]
  exact ⟨by rw [e1], by rw [e2], by rw [rules_faithful hd3], by rw [rules_faithful hd4], by rw [command_faithful hd5]⟩

/-! ### signature -/

theorem sig_round_trip (s : SigW) (h : keyIdOk s.keyid = true) : sigOfJson (sigToJson s) = some s := by
  obtain ⟨keyid, sig⟩ := s
  simp only at h
  simp only [sigOfJson, sigToJson, req]
  have g1 : ∀ (a b : JV), getField kKeyid [(kKeyid, a), (kSig, b)] = some a := fun _ _ => rfl
  have g2 : ∀ (a b : JV), getField kSig [(kKeyid, a), (kSig, b)] = some b := fun _ _ => rfl
  simp only [g1, g2, Option.bind_some, keyIdOfJson, h, if_true, hexOfJson, c12_hex_round_trip]

theorem sig_faithful {kvs : List (Str × JV)} {s : SigW} (h : sigOfJson (.obj kvs) = some s) :
    getField kKeyid kvs = some (.str s.keyid) ∧ getField kSig kvs = some (.str (hexEncode s.sig)) := by
  simp only [sigOfJson, req, Option.bind_eq_some_iff] at h
  obtain ⟨kid, ⟨v1, h1, hd1⟩, sig, ⟨v2, h2, hd2⟩, h⟩ := h
  simp only [Option.some.injEq] at h
  subst h
  simp only [h1, h2]
  refine ⟨by rw [(keyIdOfJson_faithful hd1).1], ?_⟩
  cases v2 <;> simp only [hexOfJson] at hd2 <;> try cases hd2
  rw [hexEncode_hexDecode _ _ hd2]

/-! ### layout -/

section layout
variable {K : Type}

/-- what makes a layout value representable: key ids are 64 bytes, every table entry is filed under
    its key's own id (the builder's `add_key`), thresholds fit `u32`; and the outside parts behave:
    a written key reads back, the written expiry reads back -/
structure LayoutGood (E : DocEnv K) (L : LayoutW K) : Prop where
  keys : ∀ p ∈ L.keys, keyIdOk p.1 = true ∧ E.kidOf p.2 = p.1 ∧ E.keyOfJson (E.keyToJson p.2) = some p.2
  time : E.parseTime (E.fmtTime L.expires) = some L.expires
  whole : truncSec L.expires = L.expires
  steps : ∀ s ∈ L.steps, s.WF

theorem keys_round_trip (E : DocEnv K) {ks : List (Str × K)}
    (h : ∀ p ∈ ks, keyIdOk p.1 = true ∧ E.kidOf p.2 = p.1 ∧ E.keyOfJson (E.keyToJson p.2) = some p.2) :
    keysOfJson E (keysToJson E ks) = some ks := by
  unfold keysOfJson keysToJson
  have e : allOpt (fun p : Str × JV => if keyIdOk p.1 then (E.keyOfJson p.2).map fun k => (p.1, k) else none)
      (ks.map fun p => (p.1, E.keyToJson p.2)) = some ks := by
    apply allOpt_map_of_inv
    intro p hp
    obtain ⟨h1, _, h3⟩ := h p hp
    simp only [h1, if_true, h3, Option.map_some]
  simp only [e, Option.map_some, Option.some.injEq]
  apply List.filter_eq_self.mpr
  intro p hp
  simp [(h p hp).2.1]

/-- the parsed key table only holds entries filed under the key's own id -/
theorem keysOfJson_intrinsic (E : DocEnv K) {v : JV} {ks : List (Str × K)} (h : keysOfJson E v = some ks) :
    ∀ p ∈ ks, E.kidOf p.2 = p.1 := by
  unfold keysOfJson at h
  split at h
  · simp only [Option.map_eq_some_iff] at h
    obtain ⟨all, _, e⟩ := h
    subst e
    intro p hp
    have := (List.mem_filter.mp hp).2
    simpa using this
  · cases h

theorem steps_round_trip {ss : List StepW} (h : ∀ s ∈ ss, s.WF) : stepsOfJson (.arr (ss.map stepToJson)) = some ss := by
  unfold stepsOfJson
  exact allOpt_map_of_inv (fun s hs => step_round_trip s (h s hs))

theorem insps_round_trip (is : List InspW) : inspsOfJson (.arr (is.map inspToJson)) = some is := by
  unfold inspsOfJson
  exact allOpt_map_of_inv (fun i _ => insp_round_trip i)

section layoutfields
variable (a b c d e f : JV)
theorem lg1 : getField kType [(kType, a), (kExpires, b), (kReadme, c), (kKeys, d), (kSteps, e), (kInspect, f)] = some a := rfl
theorem lg2 : getField kExpires [(kType, a), (kExpires, b), (kReadme, c), (kKeys, d), (kSteps, e), (kInspect, f)] = some b := rfl
theorem lg3 : getField kReadme [(kType, a), (kExpires, b), (kReadme, c), (kKeys, d), (kSteps, e), (kInspect, f)] = some c := rfl
theorem lg4 : getField kKeys [(kType, a), (kExpires, b), (kReadme, c), (kKeys, d), (kSteps, e), (kInspect, f)] = some d := rfl
theorem lg5 : getField kSteps [(kType, a), (kExpires, b), (kReadme, c), (kKeys, d), (kSteps, e), (kInspect, f)] = some e := rfl
theorem lg6 : getField kInspect [(kType, a), (kExpires, b), (kReadme, c), (kKeys, d), (kSteps, e), (kInspect, f)] = some f := rfl
end layoutfields

theorem layout_round_trip (E : DocEnv K) (L : LayoutW K) (h : LayoutGood E L) :
    layoutOfJson E (layoutToJson E L) = some L := by
  obtain ⟨hk, ht, hw, hs⟩ := h
  obtain ⟨expires, readme, keys, steps, inspect⟩ := L
  simp only at hk ht hw hs
  simp only [layoutOfJson, layoutToJson, req]
  rw [lg1, lg2, lg3, lg4, lg5, lg6]
  rw [Option.bind_some, decStr_str, Option.bind_some]
  rw [Option.bind_some, decStr_str, Option.bind_some]
  rw [Option.bind_some, decStr_str, Option.bind_some]
  rw [Option.bind_some, keys_round_trip E hk, Option.bind_some]
  rw [Option.bind_some, steps_round_trip hs, Option.bind_some]
  rw [Option.bind_some, insps_round_trip, Option.bind_some]
  rw [ht, Option.bind_some, hw]

theorem layout_faithful (E : DocEnv K) {kvs : List (Str × JV)} {L : LayoutW K}
    (h : layoutOfJson E (.obj kvs) = some L) :
    getField kReadme kvs = some (.str L.readme) ∧
    (∃ t i, getField kExpires kvs = some (.str t) ∧ E.parseTime t = some i ∧ L.expires = truncSec i) ∧
    (∃ xs, getField kSteps kvs = some (.arr xs) ∧ allOpt stepOfJson xs = some L.steps) ∧
    (∃ xs, getField kInspect kvs = some (.arr xs) ∧ allOpt inspOfJson xs = some L.inspect) ∧
    (∀ p ∈ L.keys, E.kidOf p.2 = p.1) := by
  simp only [layoutOfJson, req, Option.bind_eq_some_iff] at h
  obtain ⟨t, ⟨v1, h1, hd1⟩, expText, ⟨v2, h2, hd2⟩, readme, ⟨v3, h3, hd3⟩, keys, ⟨v4, h4, hd4⟩,
    steps, ⟨v5, h5, hd5⟩, insp, ⟨v6, h6, hd6⟩, expires, hd7, h⟩ := h
  simp only [Option.some.injEq] at h
  subst h
  simp only [h2, h3, h5, h6]
  have e2 : v2 = .str expText := by cases v2 <;> simp [decStr] at hd2; rw [hd2]
  have e3 : v3 = .str readme := by cases v3 <;> simp [decStr] at hd3; rw [hd3]
  refine ⟨by rw [e3], ⟨expText, expires, by rw [e2], hd7, rfl⟩, ?_, ?_, keysOfJson_intrinsic E hd4⟩
  · unfold stepsOfJson at hd5
    split at hd5
    · rename_i xs; exact ⟨xs, rfl, hd5⟩
    · cases hd5
  · unfold inspsOfJson at hd6
    split at hd6
    · rename_i xs; exact ⟨xs, rfl, hd6⟩
    · cases hd6

/-! ### signed block -/

section linkfields
variable (a b c d e f g : JV)
theorem lkType : getField kType [(kType, a), (kName, b), (kMaterials, c), (kProducts, d),
    (kEnvironment, e), (kByproducts, f), (kCommand, g)] = some a := rfl
theorem lkExpires : getField kExpires [(kType, a), (kName, b), (kMaterials, c), (kProducts, d),
    (kEnvironment, e), (kByproducts, f), (kCommand, g)] = none := rfl
end linkfields

/-- a written link is not read as a layout -/
theorem layoutOfJson_link (E : DocEnv K) (l : LinkW) : layoutOfJson E (linkToJson l) = none := by
  simp only [layoutOfJson, linkToJson, req]
  rw [lkType, lkExpires]
  rw [Option.bind_some, decStr_str, Option.bind_some]
  rfl

def MetaGood (E : DocEnv K) : MetaW K → Prop
  | .layout L => LayoutGood E L
  | .link l => l.WF

theorem meta_round_trip (E : DocEnv K) (m : MetaW K) (h : MetaGood E m) : metaOfJson E (metaToJson E m) = some m := by
  cases m with
  | layout L => simp only [metaOfJson, metaToJson, layout_round_trip E L h]
  | link l => simp only [metaOfJson, metaToJson, layoutOfJson_link, link_round_trip l h, Option.map_some]

theorem sigs_round_trip {ss : List SigW} (h : ∀ s ∈ ss, keyIdOk s.keyid = true) :
    sigsOfJson (.arr (ss.map sigToJson)) = some ss := by
  unfold sigsOfJson
  exact allOpt_map_of_inv (fun s hs => sig_round_trip s (h s hs))

theorem block_round_trip (E : DocEnv K) (b : BlockW K) (hs : ∀ s ∈ b.signatures, keyIdOk s.keyid = true)
    (hm : MetaGood E b.signed) : blockOfJson E (blockToJson E b) = some b := by
  obtain ⟨sigs, m⟩ := b
  simp only at hs hm
  simp only [blockOfJson, blockToJson, req]
  have g1 : ∀ (a b : JV), getField kSignatures [(kSignatures, a), (kSigned, b)] = some a := fun _ _ => rfl
  have g2 : ∀ (a b : JV), getField kSigned [(kSignatures, a), (kSigned, b)] = some b := fun _ _ => rfl
  rw [g1, g2]
  rw [Option.bind_some, sigs_round_trip hs, Option.bind_some]
  rw [Option.bind_some, meta_round_trip E m hm, Option.bind_some]

end layout

end InToto.Wire
