import InTotoModel.Model.JsonText
import InTotoModel.Lemmas.JsonParse
/-
  The text reader of `Model/JsonText.lean` on every spelling of a value.

  * `tokensOf v`        — the token stream of a value (no white space, no spelling left);
  * `ValSp v t`         — "`t` is a spelling of `v`": white space anywhere between tokens, every string
                          character raw or in any of its escape forms, integers in their one spelling;
  * `parse_tokens`      — the parser reads `tokensOf v` back as `v` (nesting below the recursion limit);
  * `lex_spelled`       — the lexer maps every spelling of `v` to `tokensOf v`;
  * `readText_spelled`  — hence `readText t = some v` for every spelling `t` of `v`.
-/
namespace InToto.JsonText
open InToto InToto.Json

/-! ### tokens of a value -/

mutual
def tokensOf : JV → List Tok
  | .null => [.null]
  | .bool true => [.tru]
  | .bool false => [.fals]
  | .num n => [.num n]
  | .str s => [.str s]
  | .arr [] => [.lbrack, .rbrack]
  | .arr (x :: xs) => .lbrack :: (tokensOf x ++ tailToks xs)
  | .obj [] => [.lbrace, .rbrace]
  | .obj ((k, v) :: r) => .lbrace :: .str k :: .colon :: (tokensOf v ++ mtailToks r)
def tailToks : List JV → List Tok
  | [] => [.rbrack]
  | x :: xs => .comma :: (tokensOf x ++ tailToks xs)
def mtailToks : List (Str × JV) → List Tok
  | [] => [.rbrace]
  | (k, v) :: r => .comma :: .str k :: .colon :: (tokensOf v ++ mtailToks r)
end

/- nesting depth: arrays and objects open at the same time -/
mutual
def depth : JV → Nat
  | .arr xs => 1 + depthList xs
  | .obj kvs => 1 + depthKvs kvs
  | _ => 0
def depthList : List JV → Nat
  | [] => 0
  | x :: xs => max (depth x) (depthList xs)
def depthKvs : List (Str × JV) → Nat
  | [] => 0
  | (_, v) :: r => max (depth v) (depthKvs r)
end

/-- first token of a value: never a closing bracket, comma or colon -/
def ValTok : Tok → Prop
  | .rbrack | .rbrace | .comma | .colon => False
  | _ => True

theorem tokensOf_head (v : JV) : ∃ t r, tokensOf v = t :: r ∧ ValTok t := by
  cases v with
  | null => exact ⟨_, _, rfl, trivial⟩
  | bool b => cases b <;> exact ⟨_, _, rfl, trivial⟩
  | num n => exact ⟨_, _, rfl, trivial⟩
  | str s => exact ⟨_, _, rfl, trivial⟩
  | arr xs =>
    cases xs with
    | nil => exact ⟨.lbrack, [.rbrack], by simp [tokensOf], trivial⟩
    | cons x xs => exact ⟨.lbrack, tokensOf x ++ tailToks xs, by simp [tokensOf], trivial⟩
  | obj kvs =>
    cases kvs with
    | nil => exact ⟨.lbrace, [.rbrace], by simp [tokensOf], trivial⟩
    | cons p r =>
      obtain ⟨k, v⟩ := p
      exact ⟨.lbrace, .str k :: .colon :: (tokensOf v ++ mtailToks r), by simp [tokensOf], trivial⟩

theorem tokensOf_length_pos (v : JV) : 0 < (tokensOf v).length := by
  obtain ⟨t, r, h, _⟩ := tokensOf_head v
  rw [h]; simp

/-! ### the parser reads the token stream back -/

mutual
theorem parse_tokens (v : JV) (f d : Nat) (rest : List Tok)
    (hf : (tokensOf v).length ≤ f) (hd : depth v < d) :
    pValue f d (tokensOf v ++ rest) = some (v, rest) := by
  have hpos := tokensOf_length_pos v
  obtain ⟨f, rfl⟩ : ∃ g, f = g + 1 := ⟨f - 1, by omega⟩
  cases v with
  | null => simp [tokensOf, pValue]
  | bool b => cases b <;> simp [tokensOf, pValue]
  | num n => simp [tokensOf, pValue]
  | str s => simp [tokensOf, pValue]
  | arr xs =>
    cases xs with
    | nil =>
      have : ¬ d ≤ 1 := by simp [depth, depthList] at hd; omega
      simp [tokensOf, pValue, this]
    | cons x xs =>
      simp only [depth, depthList] at hd
      simp only [tokensOf, List.length_cons, List.length_append] at hf
      have hd1 : ¬ d ≤ 1 := by omega
      obtain ⟨t, r, ht, hvt⟩ := tokensOf_head x
      have ih1 := parse_tokens x f (d - 1) (tailToks xs ++ rest) (by omega) (by omega)
      have ih2 := parse_tail xs f (d - 1) rest (by omega) (by omega)
      simp only [tokensOf, List.cons_append, List.append_assoc, pValue, if_neg hd1]
      rw [ht] at ih1 ⊢
      simp only [List.cons_append] at ih1 ⊢
      cases t <;> simp only [ValTok] at hvt <;> simp only [ih1, ih2]
  | obj kvs =>
    cases kvs with
    | nil =>
      have : ¬ d ≤ 1 := by simp [depth, depthKvs] at hd; omega
      simp [tokensOf, pValue, this]
    | cons p r =>
      obtain ⟨k, v⟩ := p
      simp only [depth, depthKvs] at hd
      simp only [tokensOf, List.length_cons, List.length_append] at hf
      have hd1 : ¬ d ≤ 1 := by omega
      have ih1 := parse_tokens v f (d - 1) (mtailToks r ++ rest) (by omega) (by omega)
      have ih2 := parse_mtail r f (d - 1) rest (by omega) (by omega)
      simp only [tokensOf, List.cons_append, List.append_assoc, pValue, if_neg hd1, ih1, ih2]
theorem parse_tail (xs : List JV) (f d : Nat) (rest : List Tok)
    (hf : (tailToks xs).length ≤ f) (hd : depthList xs < d) :
    pElems f d (tailToks xs ++ rest) = some (xs, rest) := by
  cases xs with
  | nil =>
    simp only [tailToks, List.length_cons, List.length_nil] at hf
    obtain ⟨f, rfl⟩ : ∃ g, f = g + 1 := ⟨f - 1, by omega⟩
    simp [tailToks, pElems]
  | cons x xs =>
    simp only [tailToks, List.length_cons, List.length_append] at hf
    simp only [depthList] at hd
    obtain ⟨f, rfl⟩ : ∃ g, f = g + 1 := ⟨f - 1, by omega⟩
    have ih1 := parse_tokens x f d (tailToks xs ++ rest) (by omega) (by omega)
    have ih2 := parse_tail xs f d rest (by omega) (by omega)
    simp only [tailToks, List.cons_append, List.append_assoc, pElems, ih1, ih2]
theorem parse_mtail (r : List (Str × JV)) (f d : Nat) (rest : List Tok)
    (hf : (mtailToks r).length ≤ f) (hd : depthKvs r < d) :
    pMembers f d (mtailToks r ++ rest) = some (r, rest) := by
  cases r with
  | nil =>
    simp only [mtailToks, List.length_cons, List.length_nil] at hf
    obtain ⟨f, rfl⟩ : ∃ g, f = g + 1 := ⟨f - 1, by omega⟩
    simp [mtailToks, pMembers]
  | cons p r =>
    obtain ⟨k, v⟩ := p
    simp only [mtailToks, List.length_cons, List.length_append] at hf
    simp only [depthKvs] at hd
    obtain ⟨f, rfl⟩ : ∃ g, f = g + 1 := ⟨f - 1, by omega⟩
    have ih1 := parse_tokens v f d (mtailToks r ++ rest) (by omega) (by omega)
    have ih2 := parse_mtail r f d rest (by omega) (by omega)
    simp only [mtailToks, List.cons_append, List.append_assoc, pMembers, ih1, ih2]
end

theorem parseToks_tokensOf (v : JV) (hd : depth v ≤ 127) : parseToks (tokensOf v) = some v := by
  unfold parseToks
  have := parse_tokens v ((tokensOf v).length + 1) 128 [] (by omega) (by omega)
  rw [List.append_nil] at this
  rw [this]

/-! ### strings: every spelling of a character lexes to that character -/

/-- `t` spells the character `c` inside a JSON string. -/
inductive CharSp : Char → Str → Prop
  | raw (c : Char) (h1 : c ≠ '"') (h2 : c ≠ '\\') (h3 : ¬ c.toNat < 32) : CharSp c [c]
  | short (e ch : Char) (h : unescape e = some ch) : CharSp ch ['\\', e]
  | u4 (c a b c' d : Char) (h : hex4 a b c' d = some c.toNat) (hs : c.toNat < 0xD800 ∨ 0xDFFF < c.toNat) :
      CharSp c ['\\', 'u', a, b, c', d]
  | pair (c a b c' d a2 b2 c2 d2 : Char) (n m : Nat) (h1 : hex4 a b c' d = some n) (h2 : hex4 a2 b2 c2 d2 = some m)
      (hn : 0xD800 ≤ n ∧ n ≤ 0xDBFF) (hm : 0xDC00 ≤ m ∧ m ≤ 0xDFFF)
      (hc : c.toNat = 0x10000 + (n - 0xD800) * 0x400 + (m - 0xDC00)) :
      CharSp c ['\\', 'u', a, b, c', d, '\\', 'u', a2, b2, c2, d2]

/-- `b` spells the string `s` (without the quotes). -/
inductive BodySp : Str → Str → Prop
  | nil : BodySp [] []
  | cons {c : Char} {t : Str} {cs b : Str} (h : CharSp c t) (hb : BodySp cs b) : BodySp (c :: cs) (t ++ b)

theorem lexStr_char {c : Char} {t : Str} (h : CharSp c t) (f : Nat) (rest acc : Str) :
    lexStr (f + 1) (t ++ rest) acc = lexStr f rest (c :: acc) := by
  cases h with
  | raw _ h1 h2 h3 =>
    simp only [List.cons_append, List.nil_append, lexStr, if_neg h1, if_neg h2, if_neg h3]
  | short e _ h =>
    have hne : e ≠ 'u' := by
      intro he; subst he; simp [unescape] at h
    simp [lexStr, hne, h]
  | u4 _ a b c' d h hs =>
    simp only [List.cons_append, List.nil_append, lexStr]
    simp only [show ('\\' : Char) ≠ '"' from by decide, if_false, if_true, lexUnicode, h, if_pos hs,
      Char.ofNat_toNat]
  | pair _ a b c' d a2 b2 c2 d2 n m h1 h2 hn hm hc =>
    simp only [List.cons_append, List.nil_append, lexStr]
    have hns : ¬ (n < 0xD800 ∨ 0xDFFF < n) := by omega
    simp only [show ('\\' : Char) ≠ '"' from by decide, if_false, if_true, lexUnicode, h1, if_neg hns,
      if_pos hn.2, and_self, h2, if_pos hm, ← hc, Char.ofNat_toNat]

theorem lexStr_body {s b : Str} (h : BodySp s b) (f : Nat) (rest acc : Str) :
    lexStr (f + s.length + 1) (b ++ '"' :: rest) acc = some (acc.reverse ++ s, rest) := by
  induction h generalizing acc with
  | nil => simp [lexStr]
  | cons hc hb ih =>
    rename_i c t cs b
    rw [List.append_assoc, List.length_cons, show f + (cs.length + 1) + 1 = (f + cs.length + 1) + 1 from by omega,
      lexStr_char hc, ih]
    simp

theorem lexStr_mono {f g : Nat} {x acc : Str} {y : Str × Str} (h : lexStr f x acc = some y) (hfg : f ≤ g) :
    lexStr g x acc = some y := by
  induction f generalizing g x acc with
  | zero => simp [lexStr] at h
  | succ f ih =>
    obtain ⟨g, rfl⟩ : ∃ g', g = g' + 1 := ⟨g - 1, by omega⟩
    have hfg' : f ≤ g := by omega
    cases x with
    | nil => simp [lexStr] at h
    | cons c r =>
      simp only [lexStr] at h ⊢
      split
      · rename_i hq; simpa [hq] using h
      · rename_i hq
        simp only [if_neg hq] at h
        split
        · rename_i hb
          simp only [if_pos hb] at h
          cases r with
          | nil => simp at h
          | cons e r1 =>
            simp only at h ⊢
            split
            · rename_i hu
              simp only [if_pos hu] at h
              cases hl : lexUnicode r1 with
              | none => simp [hl] at h
              | some p =>
                obtain ⟨ch, r2⟩ := p
                simp only [hl] at h ⊢
                exact ih h hfg'
            · rename_i hu
              simp only [if_neg hu] at h
              cases hl : unescape e with
              | none => simp [hl] at h
              | some ch =>
                simp only [hl] at h ⊢
                exact ih h hfg'
        · rename_i hb
          simp only [if_neg hb] at h
          split
          · rename_i hc; simp [hc] at h
          · rename_i hc
            simp only [if_neg hc] at h
            exact ih h hfg'

theorem bodySp_length {s b : Str} (h : BodySp s b) : s.length ≤ b.length := by
  induction h with
  | nil => simp
  | cons hc hb ih =>
    have : 1 ≤ (by rename_i c t cs b; exact t.length) := by
      cases hc <;> simp
    simp only [List.length_cons, List.length_append]
    omega

/-- The string token: a quoted spelling of `s` lexes to `s`, whatever follows. -/
theorem lexStr_quoted {s b : Str} (h : BodySp s b) (rest : Str) :
    lexStr ((b ++ '"' :: rest).length + 1) (b ++ '"' :: rest) [] = some (s, rest) := by
  have h1 := lexStr_body h 0 rest []
  have hl := bodySp_length h
  refine lexStr_mono (by simpa using h1) ?_
  simp only [List.length_append, List.length_cons]
  omega

/-! ### numbers: the one spelling of an integer lexes to that integer -/

/-- what may follow a numeral: not a digit, `.`, `e`, `E` -/
def NumEnd (rest : Str) : Prop :=
  ∀ c r, rest = c :: r → isDigitC c = false ∧ c ≠ '.' ∧ c ≠ 'e' ∧ c ≠ 'E'

theorem numEnd_ndh {rest : Str} (h : NumEnd rest) : NDH rest := fun c r e => (h c r e).1

theorem digitsNat_eq (ds : Str) (acc : Nat) : digitsNat ds acc = digitsVal ds acc := by
  induction ds generalizing acc with
  | nil => rfl
  | cons c cs ih => simp [digitsNat, digitsVal, ih]

theorem spanDigits_append {xs : Str} (hx : ∀ c ∈ xs, isDigitC c = true) {rest : Str} (hr : NDH rest) :
    spanDigits (xs ++ rest) = (xs, rest) := by
  induction xs with
  | nil =>
    cases rest with
    | nil => rfl
    | cons c r => simp [spanDigits, hr c r rfl]
  | cons x xs ih =>
    have hx0 : isDigitC x = true := hx x (by simp)
    have := ih (fun c hc => hx c (by simp [hc]))
    simp [spanDigits, hx0, this]

theorem lexFrac_end {rest : Str} (h : NumEnd rest) : lexFrac rest = some (none, rest) := by
  cases rest with
  | nil => rfl
  | cons c r => simp [lexFrac, (h c r rfl).2.1]

theorem lexExp_end {rest : Str} (h : NumEnd rest) : lexExp rest = some (none, rest) := by
  cases rest with
  | nil => rfl
  | cons c r =>
    have := h c r rfl
    simp [lexExp, this.2.2.1, this.2.2.2]

theorem lexIntPart_natDec (n : Nat) {rest : Str} (hr : NDH rest) :
    lexIntPart (natDec n ++ rest) = some (natDec n, rest) := by
  cases n with
  | zero =>
    rw [natDec_zero]
    cases rest with
    | nil => simp [lexIntPart]
    | cons d r => simp [lexIntPart, hr d r rfl]
  | succ m =>
    obtain ⟨c, cs, e, hd, h0⟩ := natDec_head (Nat.succ_pos m)
    have hall := natDec_digits (m + 1)
    rw [e] at hall ⊢
    have := spanDigits_append hall hr
    simp only [List.cons_append] at this
    simp [lexIntPart, h0, hd, this]

/-- The canonical decimal of an integer in the `i64` / `u64` range lexes to that integer. -/
theorem lexNum_intDec (i : Int) (h1 : -(2 ^ 63 : Int) ≤ i) (h2 : i < (2 ^ 64 : Int)) {rest : Str} (hr : NumEnd rest) :
    lexNum (intDec i ++ rest) = some (.int i, rest) := by
  have hnd := numEnd_ndh hr
  cases i with
  | ofNat n =>
    have hsign : lexSign (natDec n ++ rest) = (false, natDec n ++ rest) := by
      obtain ⟨c, cs, e, hc⟩ : ∃ c cs, natDec n = c :: cs ∧ c ≠ '-' := by
        cases n with
        | zero => exact ⟨'0', [], natDec_zero, by decide⟩
        | succ m =>
          obtain ⟨c, cs, e, hd, _⟩ := natDec_head (Nat.succ_pos m)
          refine ⟨c, cs, e, ?_⟩
          intro he; subst he; revert hd; decide
      rw [e]
      simp only [List.cons_append, lexSign]
      split
      · rename_i heq; simp only [List.cons.injEq] at heq; exact absurd heq.1 hc
      · rfl
    have hn : n < 2 ^ 64 := by
      have : ((n : Nat) : Int) < (2 ^ 64 : Int) := h2
      omega
    simp only [intDec, lexNum, hsign, lexIntPart_natDec n hnd, lexFrac_end hr, lexExp_end hr, classify,
      digitsNat_eq, natDec_val, Bool.not_false, if_true, if_pos hn]
    rfl
  | negSucc n =>
    have hle : n + 1 ≤ 2 ^ 63 := by
      have : -(2 ^ 63 : Int) ≤ -((n : Int) + 1) := by rw [← Int.negSucc_eq]; exact h1
      omega
    have hne : ¬ (n + 1 = 0) := by omega
    simp only [intDec, List.cons_append, lexNum, lexSign, lexIntPart_natDec (n + 1) hnd, lexFrac_end hr,
      lexExp_end hr, classify, digitsNat_eq, natDec_val, Bool.not_true, Bool.false_eq_true, if_false, if_neg hne,
      if_pos hle]
    rfl

/-! ### spellings of a value -/

def Ws (w : Str) : Prop := ∀ c ∈ w, isWs c = true

mutual
def ValSp : JV → Str → Prop
  | .null, t => t = ['n', 'u', 'l', 'l']
  | .bool true, t => t = ['t', 'r', 'u', 'e']
  | .bool false, t => t = ['f', 'a', 'l', 's', 'e']
  | .num (.int i), t => (-(2 ^ 63 : Int) ≤ i ∧ i < (2 ^ 64 : Int)) ∧ t = intDec i
  | .num .nonInt, _ => False
  | .str s, t => ∃ b, BodySp s b ∧ t = '"' :: (b ++ ['"'])
  | .arr [], t => ∃ w, Ws w ∧ t = '[' :: (w ++ [']'])
  | .arr (x :: xs), t => ∃ w1 tx w2 tl, Ws w1 ∧ ValSp x tx ∧ Ws w2 ∧ TailSp xs tl ∧
      t = '[' :: (w1 ++ (tx ++ (w2 ++ tl)))
  | .obj [], t => ∃ w, Ws w ∧ t = '{' :: (w ++ ['}'])
  | .obj ((k, v) :: r), t => ∃ w0 bk w1 w2 tv w3 tl, Ws w0 ∧ BodySp k bk ∧ Ws w1 ∧ Ws w2 ∧ ValSp v tv ∧ Ws w3 ∧
      MTailSp r tl ∧ t = '{' :: (w0 ++ ('"' :: (bk ++ ('"' :: (w1 ++ (':' :: (w2 ++ (tv ++ (w3 ++ tl)))))))))
def TailSp : List JV → Str → Prop
  | [], t => t = [']']
  | x :: xs, t => ∃ w1 tx w2 tl, Ws w1 ∧ ValSp x tx ∧ Ws w2 ∧ TailSp xs tl ∧ t = ',' :: (w1 ++ (tx ++ (w2 ++ tl)))
def MTailSp : List (Str × JV) → Str → Prop
  | [], t => t = ['}']
  | (k, v) :: r, t => ∃ w0 bk w1 w2 tv w3 tl, Ws w0 ∧ BodySp k bk ∧ Ws w1 ∧ Ws w2 ∧ ValSp v tv ∧ Ws w3 ∧
      MTailSp r tl ∧ t = ',' :: (w0 ++ ('"' :: (bk ++ ('"' :: (w1 ++ (':' :: (w2 ++ (tv ++ (w3 ++ tl)))))))))
end

/-- `t` is a JSON text for the value `v`: a spelling of `v` between optional white space. -/
def TextSp (v : JV) (t : Str) : Prop := ∃ w1 body w2, Ws w1 ∧ ValSp v body ∧ Ws w2 ∧ t = w1 ++ (body ++ w2)

/-! ### the lexer on spellings -/

/-- one step of the lexer -/
theorem lex_step (f : Nat) (c : Char) (r : Str) :
    lex (f + 1) (c :: r) =
      (if isWs c then lex f r
      else if c = '[' then (lex f r).map (.lbrack :: ·)
      else if c = ']' then (lex f r).map (.rbrack :: ·)
      else if c = '{' then (lex f r).map (.lbrace :: ·)
      else if c = '}' then (lex f r).map (.rbrace :: ·)
      else if c = ',' then (lex f r).map (.comma :: ·)
      else if c = ':' then (lex f r).map (.colon :: ·)
      else if c = '"' then
        match lexStr (r.length + 1) r [] with
        | some (s, r') => (lex f r').map (.str s :: ·)
        | none => none
      else if c = 'n' then
        match dropPrefix ['u', 'l', 'l'] r with
        | some r' => (lex f r').map (.null :: ·)
        | none => none
      else if c = 't' then
        match dropPrefix ['r', 'u', 'e'] r with
        | some r' => (lex f r').map (.tru :: ·)
        | none => none
      else if c = 'f' then
        match dropPrefix ['a', 'l', 's', 'e'] r with
        | some r' => (lex f r').map (.fals :: ·)
        | none => none
      else if c = '-' ∨ isDigitC c then
        match lexNum (c :: r) with
        | some (n, r') => (lex f r').map (.num n :: ·)
        | none => none
      else none) := by
  rfl

theorem lex_mono {f g : Nat} {x : Str} {y : List Tok} (h : lex f x = some y) (hfg : f ≤ g) : lex g x = some y := by
  induction f generalizing g x y with
  | zero => simp [lex] at h
  | succ f ih =>
    obtain ⟨g, rfl⟩ : ∃ g', g = g' + 1 := ⟨g - 1, by omega⟩
    have hfg' : f ≤ g := by omega
    have hmap : ∀ (r : Str) (t : Tok) (y : List Tok), (lex f r).map (t :: ·) = some y → (lex g r).map (t :: ·) = some y := by
      intro r t y hy
      cases hl : lex f r with
      | none => simp [hl] at hy
      | some z => rw [ih hl hfg']; simpa [hl] using hy
    cases x with
    | nil => rw [lex] at h ⊢; exact h
    | cons c r =>
      rw [lex_step] at h ⊢
      by_cases hc : isWs c = true
      · rw [if_pos hc] at h ⊢; exact ih h hfg'
      rw [if_neg hc] at h ⊢
      by_cases h1 : c = '['
      · rw [if_pos h1] at h ⊢; exact hmap _ _ _ h
      rw [if_neg h1] at h ⊢
      by_cases h2 : c = ']'
      · rw [if_pos h2] at h ⊢; exact hmap _ _ _ h
      rw [if_neg h2] at h ⊢
      by_cases h3 : c = '{'
      · rw [if_pos h3] at h ⊢; exact hmap _ _ _ h
      rw [if_neg h3] at h ⊢
      by_cases h4 : c = '}'
      · rw [if_pos h4] at h ⊢; exact hmap _ _ _ h
      rw [if_neg h4] at h ⊢
      by_cases h5 : c = ','
      · rw [if_pos h5] at h ⊢; exact hmap _ _ _ h
      rw [if_neg h5] at h ⊢
      by_cases h6 : c = ':'
      · rw [if_pos h6] at h ⊢; exact hmap _ _ _ h
      rw [if_neg h6] at h ⊢
      by_cases h7 : c = '"'
      · rw [if_pos h7] at h ⊢
        cases hs : lexStr (r.length + 1) r [] with
        | none => simp [hs] at h
        | some p => obtain ⟨s, r'⟩ := p; simp only [hs] at h ⊢; exact hmap _ _ _ h
      rw [if_neg h7] at h ⊢
      by_cases h8 : c = 'n'
      · rw [if_pos h8] at h ⊢
        cases hs : dropPrefix ['u', 'l', 'l'] r with
        | none => simp [hs] at h
        | some r' => simp only [hs] at h ⊢; exact hmap _ _ _ h
      rw [if_neg h8] at h ⊢
      by_cases h9 : c = 't'
      · rw [if_pos h9] at h ⊢
        cases hs : dropPrefix ['r', 'u', 'e'] r with
        | none => simp [hs] at h
        | some r' => simp only [hs] at h ⊢; exact hmap _ _ _ h
      rw [if_neg h9] at h ⊢
      by_cases h10 : c = 'f'
      · rw [if_pos h10] at h ⊢
        cases hs : dropPrefix ['a', 'l', 's', 'e'] r with
        | none => simp [hs] at h
        | some r' => simp only [hs] at h ⊢; exact hmap _ _ _ h
      rw [if_neg h10] at h ⊢
      by_cases h11 : c = '-' ∨ isDigitC c = true
      · rw [if_pos h11] at h ⊢
        cases hs : lexNum (c :: r) with
        | none => simp [hs] at h
        | some p => obtain ⟨n, r'⟩ := p; simp only [hs] at h ⊢; exact hmap _ _ _ h
      rw [if_neg h11] at h
      cases h

/-- "the lexer reads `x` as `y`, with no more fuel than `readText` gives it" -/
def LexB (x : Str) (y : List Tok) : Prop := ∃ f, f ≤ x.length + 1 ∧ lex f x = some y

theorem lexB_nil : LexB [] [] := ⟨1, by simp, by rw [lex]⟩

theorem lexB_readText {t : Str} {y : List Tok} (h : LexB t y) : lex (t.length + 1) t = some y := by
  obtain ⟨f, hf, hl⟩ := h
  exact lex_mono hl hf

theorem lexB_wsChar {c : Char} (hc : isWs c = true) {rest : Str} {y : List Tok} (h : LexB rest y) :
    LexB (c :: rest) y := by
  obtain ⟨f, hf, hl⟩ := h
  refine ⟨f + 1, by simp; omega, ?_⟩
  rw [lex_step, if_pos hc]; exact hl

theorem lexB_ws {w : Str} (hw : Ws w) {rest : Str} {y : List Tok} (h : LexB rest y) : LexB (w ++ rest) y := by
  induction w with
  | nil => exact h
  | cons c w ih =>
    exact lexB_wsChar (hw c (by simp)) (ih (fun d hd => hw d (by simp [hd])))

/-- the six structural characters -/
theorem lexB_punct {c : Char} {t : Tok}
    (hc : (c = '[' ∧ t = .lbrack) ∨ (c = ']' ∧ t = .rbrack) ∨ (c = '{' ∧ t = .lbrace) ∨ (c = '}' ∧ t = .rbrace) ∨
          (c = ',' ∧ t = .comma) ∨ (c = ':' ∧ t = .colon))
    {rest : Str} {y : List Tok} (h : LexB rest y) : LexB (c :: rest) (t :: y) := by
  obtain ⟨f, hf, hl⟩ := h
  refine ⟨f + 1, by simp; omega, ?_⟩
  rw [lex_step]
  rcases hc with ⟨rfl, rfl⟩ | ⟨rfl, rfl⟩ | ⟨rfl, rfl⟩ | ⟨rfl, rfl⟩ | ⟨rfl, rfl⟩ | ⟨rfl, rfl⟩ <;>
    simp [isWs, hl]

theorem lexB_null {rest : Str} {y : List Tok} (h : LexB rest y) : LexB ('n' :: 'u' :: 'l' :: 'l' :: rest) (.null :: y) := by
  obtain ⟨f, hf, hl⟩ := h
  refine ⟨f + 1, by simp; omega, ?_⟩
  rw [lex_step]
  simp [isWs, dropPrefix, hl]

theorem lexB_true {rest : Str} {y : List Tok} (h : LexB rest y) : LexB ('t' :: 'r' :: 'u' :: 'e' :: rest) (.tru :: y) := by
  obtain ⟨f, hf, hl⟩ := h
  refine ⟨f + 1, by simp; omega, ?_⟩
  rw [lex_step]
  simp [isWs, dropPrefix, hl]

theorem lexB_false {rest : Str} {y : List Tok} (h : LexB rest y) :
    LexB ('f' :: 'a' :: 'l' :: 's' :: 'e' :: rest) (.fals :: y) := by
  obtain ⟨f, hf, hl⟩ := h
  refine ⟨f + 1, by simp; omega, ?_⟩
  rw [lex_step]
  simp [isWs, dropPrefix, hl]

theorem lexB_str {s b : Str} (hb : BodySp s b) {rest : Str} {y : List Tok} (h : LexB rest y) :
    LexB ('"' :: (b ++ '"' :: rest)) (.str s :: y) := by
  obtain ⟨f, hf, hl⟩ := h
  refine ⟨f + 1, by simp; omega, ?_⟩
  rw [lex_step]
  have hq := lexStr_quoted hb rest
  simp only [show isWs '"' = false from by decide, Bool.false_eq_true, if_false,
    show ('"' : Char) ≠ '[' from by decide, show ('"' : Char) ≠ ']' from by decide, show ('"' : Char) ≠ '{' from by decide,
    show ('"' : Char) ≠ '}' from by decide, show ('"' : Char) ≠ ',' from by decide, show ('"' : Char) ≠ ':' from by decide,
    if_true, hq, hl, Option.map_some]

theorem digit_char_facts {c : Char} (h : c = '-' ∨ isDigitC c = true) :
    isWs c = false ∧ c ≠ '[' ∧ c ≠ ']' ∧ c ≠ '{' ∧ c ≠ '}' ∧ c ≠ ',' ∧ c ≠ ':' ∧ c ≠ '"' ∧ c ≠ 'n' ∧ c ≠ 't' ∧ c ≠ 'f' := by
  rcases h with rfl | h
  · decide
  · have hn : 48 ≤ c.toNat ∧ c.toNat ≤ 57 := by simpa [isDigitC] using h
    have key : ∀ d : Char, (d.toNat < 48 ∨ 57 < d.toNat) → c ≠ d := by
      intro d hd e; subst e; omega
    refine ⟨?_, key _ (by decide), key _ (by decide), key _ (by decide), key _ (by decide), key _ (by decide),
      key _ (by decide), key _ (by decide), key _ (by decide), key _ (by decide), key _ (by decide)⟩
    have h1 := key ' ' (by decide)
    have h2 := key '\t' (by decide)
    have h3 := key '\n' (by decide)
    have h4 := key '\r' (by decide)
    simp [isWs, h1, h2, h3, h4]

theorem lexB_int (i : Int) (h1 : -(2 ^ 63 : Int) ≤ i) (h2 : i < (2 ^ 64 : Int)) {rest : Str} (hr : NumEnd rest)
    {y : List Tok} (h : LexB rest y) : LexB (intDec i ++ rest) (.num (.int i) :: y) := by
  obtain ⟨f, hf, hl⟩ := h
  obtain ⟨c, r, e, hc⟩ := intDec_head i
  refine ⟨f + 1, by rw [e]; simp; omega, ?_⟩
  have hn := lexNum_intDec i h1 h2 hr
  rw [e] at hn ⊢
  simp only [List.cons_append] at hn ⊢
  obtain ⟨a0, a1, a2, a3, a4, a5, a6, a7, a8, a9, a10⟩ := digit_char_facts hc
  rw [lex_step]
  simp only [a0, Bool.false_eq_true, if_false, if_neg a1, if_neg a2, if_neg a3, if_neg a4, if_neg a5, if_neg a6, if_neg a7,
    if_neg a8, if_neg a9, if_neg a10, if_pos hc, hn, hl, Option.map_some]

/-! ### what may follow a number -/

theorem numEnd_nil : NumEnd [] := by intro c r h; cases h

theorem numEnd_cons {c : Char} {r : Str} (h : isWs c = true ∨ c = ',' ∨ c = ']' ∨ c = '}') : NumEnd (c :: r) := by
  intro c' r' e
  cases e
  rcases h with h | rfl | rfl | rfl
  · have : ((c = ' ' ∨ c = '\t') ∨ c = '\n') ∨ c = '\r' := by simpa [isWs] using h
    rcases this with ((rfl | rfl) | rfl) | rfl <;> decide
  · decide
  · decide
  · decide

theorem numEnd_ws_append {w r : Str} (hw : Ws w) (hr : NumEnd r) : NumEnd (w ++ r) := by
  cases w with
  | nil => exact hr
  | cons c w => exact numEnd_cons (Or.inl (hw c (by simp)))

theorem tailSp_head {xs : List JV} {t : Str} (h : TailSp xs t) (rest : Str) : NumEnd (t ++ rest) := by
  cases xs with
  | nil => simp only [TailSp] at h; subst h; exact numEnd_cons (Or.inr (Or.inr (Or.inl rfl)))
  | cons x xs =>
    simp only [TailSp] at h
    obtain ⟨w1, tx, w2, tl, _, _, _, _, rfl⟩ := h
    exact numEnd_cons (Or.inr (Or.inl rfl))

theorem mtailSp_head {r : List (Str × JV)} {t : Str} (h : MTailSp r t) (rest : Str) : NumEnd (t ++ rest) := by
  cases r with
  | nil => simp only [MTailSp] at h; subst h; exact numEnd_cons (Or.inr (Or.inr (Or.inr rfl)))
  | cons p r =>
    obtain ⟨k, v⟩ := p
    simp only [MTailSp] at h
    obtain ⟨w0, bk, w1, w2, tv, w3, tl, _, _, _, _, _, _, _, rfl⟩ := h
    exact numEnd_cons (Or.inr (Or.inl rfl))

/-! ### the lexer maps every spelling of a value to its token stream -/

mutual
theorem lex_val (v : JV) (t : Str) (h : ValSp v t) (rest : Str) (hr : NumEnd rest) (y : List Tok) (hl : LexB rest y) :
    LexB (t ++ rest) (tokensOf v ++ y) := by
  cases v with
  | null => simp only [ValSp] at h; subst h; exact lexB_null hl
  | bool b =>
    cases b with
    | true => simp only [ValSp] at h; subst h; exact lexB_true hl
    | false => simp only [ValSp] at h; subst h; exact lexB_false hl
  | num n =>
    cases n with
    | int i => simp only [ValSp] at h; obtain ⟨⟨h1, h2⟩, rfl⟩ := h; exact lexB_int i h1 h2 hr hl
    | nonInt => simp only [ValSp] at h
  | str s =>
    simp only [ValSp] at h
    obtain ⟨b, hb, rfl⟩ := h
    simpa [tokensOf] using lexB_str hb hl
  | arr xs =>
    cases xs with
    | nil =>
      simp only [ValSp] at h
      obtain ⟨w, hw, rfl⟩ := h
      have h1 : LexB (']' :: rest) (.rbrack :: y) := lexB_punct (Or.inr (Or.inl ⟨rfl, rfl⟩)) hl
      have h2 := lexB_ws hw h1
      have h3 : LexB ('[' :: (w ++ ']' :: rest)) (.lbrack :: .rbrack :: y) := lexB_punct (Or.inl ⟨rfl, rfl⟩) h2
      simpa [tokensOf] using h3
    | cons x xs =>
      simp only [ValSp] at h
      obtain ⟨w1, tx, w2, tl, hw1, hx, hw2, htl, rfl⟩ := h
      have h1 := lex_tail xs tl htl rest y hl
      have h2 := lexB_ws hw2 h1
      have h3 := lex_val x tx hx (w2 ++ (tl ++ rest)) (numEnd_ws_append hw2 (tailSp_head htl rest)) _ h2
      have h4 := lexB_ws hw1 h3
      have h5 : LexB ('[' :: (w1 ++ (tx ++ (w2 ++ (tl ++ rest))))) (.lbrack :: (tokensOf x ++ (tailToks xs ++ y))) :=
        lexB_punct (Or.inl ⟨rfl, rfl⟩) h4
      simpa [tokensOf, List.append_assoc] using h5
  | obj kvs =>
    cases kvs with
    | nil =>
      simp only [ValSp] at h
      obtain ⟨w, hw, rfl⟩ := h
      have h1 : LexB ('}' :: rest) (.rbrace :: y) := lexB_punct (Or.inr (Or.inr (Or.inr (Or.inl ⟨rfl, rfl⟩)))) hl
      have h2 := lexB_ws hw h1
      have h3 : LexB ('{' :: (w ++ '}' :: rest)) (.lbrace :: .rbrace :: y) :=
        lexB_punct (Or.inr (Or.inr (Or.inl ⟨rfl, rfl⟩))) h2
      simpa [tokensOf] using h3
    | cons p r =>
      obtain ⟨k, v⟩ := p
      simp only [ValSp] at h
      obtain ⟨w0, bk, w1, w2, tv, w3, tl, hw0, hk, hw1, hw2, hv, hw3, htl, rfl⟩ := h
      have h1 := lex_mtail r tl htl rest y hl
      have h2 := lexB_ws hw3 h1
      have h3 := lex_val v tv hv (w3 ++ (tl ++ rest)) (numEnd_ws_append hw3 (mtailSp_head htl rest)) _ h2
      have h4 := lexB_ws hw2 h3
      have h5 : LexB (':' :: (w2 ++ (tv ++ (w3 ++ (tl ++ rest))))) (.colon :: (tokensOf v ++ (mtailToks r ++ y))) :=
        lexB_punct (Or.inr (Or.inr (Or.inr (Or.inr (Or.inr ⟨rfl, rfl⟩))))) h4
      have h6 := lexB_ws hw1 h5
      have h7 := lexB_str hk h6
      have h8 := lexB_ws hw0 h7
      have h9 : LexB ('{' :: (w0 ++ ('"' :: (bk ++ '"' :: (w1 ++ (':' :: (w2 ++ (tv ++ (w3 ++ (tl ++ rest))))))))))
          (.lbrace :: .str k :: .colon :: (tokensOf v ++ (mtailToks r ++ y))) :=
        lexB_punct (Or.inr (Or.inr (Or.inl ⟨rfl, rfl⟩))) h8
      simpa [tokensOf, List.append_assoc] using h9
theorem lex_tail (xs : List JV) (t : Str) (h : TailSp xs t) (rest : Str) (y : List Tok) (hl : LexB rest y) :
    LexB (t ++ rest) (tailToks xs ++ y) := by
  cases xs with
  | nil =>
    simp only [TailSp] at h; subst h
    exact lexB_punct (Or.inr (Or.inl ⟨rfl, rfl⟩)) hl
  | cons x xs =>
    simp only [TailSp] at h
    obtain ⟨w1, tx, w2, tl, hw1, hx, hw2, htl, rfl⟩ := h
    have h1 := lex_tail xs tl htl rest y hl
    have h2 := lexB_ws hw2 h1
    have h3 := lex_val x tx hx (w2 ++ (tl ++ rest)) (numEnd_ws_append hw2 (tailSp_head htl rest)) _ h2
    have h4 := lexB_ws hw1 h3
    have h5 : LexB (',' :: (w1 ++ (tx ++ (w2 ++ (tl ++ rest))))) (.comma :: (tokensOf x ++ (tailToks xs ++ y))) :=
      lexB_punct (Or.inr (Or.inr (Or.inr (Or.inr (Or.inl ⟨rfl, rfl⟩))))) h4
    simpa [tailToks, List.append_assoc] using h5
theorem lex_mtail (r : List (Str × JV)) (t : Str) (h : MTailSp r t) (rest : Str) (y : List Tok) (hl : LexB rest y) :
    LexB (t ++ rest) (mtailToks r ++ y) := by
  cases r with
  | nil =>
    simp only [MTailSp] at h; subst h
    exact lexB_punct (Or.inr (Or.inr (Or.inr (Or.inl ⟨rfl, rfl⟩)))) hl
  | cons p r =>
    obtain ⟨k, v⟩ := p
    simp only [MTailSp] at h
    obtain ⟨w0, bk, w1, w2, tv, w3, tl, hw0, hk, hw1, hw2, hv, hw3, htl, rfl⟩ := h
    have h1 := lex_mtail r tl htl rest y hl
    have h2 := lexB_ws hw3 h1
    have h3 := lex_val v tv hv (w3 ++ (tl ++ rest)) (numEnd_ws_append hw3 (mtailSp_head htl rest)) _ h2
    have h4 := lexB_ws hw2 h3
    have h5 : LexB (':' :: (w2 ++ (tv ++ (w3 ++ (tl ++ rest))))) (.colon :: (tokensOf v ++ (mtailToks r ++ y))) :=
      lexB_punct (Or.inr (Or.inr (Or.inr (Or.inr (Or.inr ⟨rfl, rfl⟩))))) h4
    have h6 := lexB_ws hw1 h5
    have h7 := lexB_str hk h6
    have h8 := lexB_ws hw0 h7
    have h9 : LexB (',' :: (w0 ++ ('"' :: (bk ++ '"' :: (w1 ++ (':' :: (w2 ++ (tv ++ (w3 ++ (tl ++ rest))))))))))
        (.comma :: .str k :: .colon :: (tokensOf v ++ (mtailToks r ++ y))) :=
      lexB_punct (Or.inr (Or.inr (Or.inr (Or.inr (Or.inl ⟨rfl, rfl⟩))))) h8
    simpa [mtailToks, List.append_assoc] using h9
end

/-- Every spelling of a value lexes to the value's token stream. -/
theorem lex_spelled {v : JV} {t : Str} (h : TextSp v t) : lex (t.length + 1) t = some (tokensOf v) := by
  obtain ⟨w1, body, w2, hw1, hv, hw2, rfl⟩ := h
  have h0 : LexB w2 [] := by simpa using lexB_ws hw2 lexB_nil
  have h1 := lex_val v body hv w2 (by simpa using numEnd_ws_append hw2 numEnd_nil) [] h0
  have h2 := lexB_ws hw1 h1
  simpa using lexB_readText h2

/-- **The reader does not depend on the spelling**: every text that spells `v` - whatever white
    space and whatever escape forms it uses - is read as `v` (nesting below the recursion limit). -/
theorem readText_spelled {v : JV} {t : Str} (h : TextSp v t) (hd : depth v ≤ 127) : readText t = some v := by
  unfold readText
  rw [lex_spelled h]
  exact parseToks_tokensOf v hd

end InToto.JsonText
