import InTotoModel.Lemmas.Verify
namespace InToto.Verify

variable {K : Type}

def Event.path : Event → List Str
  | .inspectionStarted p _ => p

/-- `p` is a (not necessarily strict) prefix of `q` -/
def IsPre (p q : List Str) : Prop := ∃ r, q = p ++ r

theorem isPre_trans_append {p q : List Str} {s : Str} (h : IsPre (p ++ [s]) q) : IsPre p q ∧ q ≠ p := by
  obtain ⟨r, rfl⟩ := h
  refine ⟨⟨[s] ++ r, by simp⟩, ?_⟩
  intro e
  have := congrArg List.length e
  simp at this

theorem runInspections_events (env : Env K) (path : List Str) (insps : List Insp) (acc : List (Str × Link))
    (ev : List Event) :
    ∃ new, (runInspections env path insps acc ev).2 = ev ++ new ∧ ∀ e ∈ new, e.path = path := by
  induction insps generalizing acc ev with
  | nil => exact ⟨[], by simp [runInspections], by simp⟩
  | cons i rest ih =>
    simp only [runInspections]
    split
    · exact ⟨[], by simp, by simp⟩
    · rename_i status l hrun
      split
      · exact ⟨[.inspectionStarted path i.name], rfl, by simp [Event.path]⟩
      · obtain ⟨new, h1, h2⟩ := ih (upsert i.name l acc) (ev ++ [.inspectionStarted path i.name])
        refine ⟨.inspectionStarted path i.name :: new, by rw [h1]; simp, ?_⟩
        intro e he
        simp only [List.mem_cons] at he
        rcases he with rfl | he
        · rfl
        · exact h2 e he

/-- events of a verification at `path` all belong to `path` or to layouts below it -/
def EvBelow (path : List Str) (ev : List Event) : Prop := ∀ e ∈ ev, IsPre path e.path

/-- events in `ev'` beyond `ev` belong to layouts strictly below `path` -/
def EvStrictlyBelowSince (path : List Str) (ev ev' : List Event) : Prop :=
  ∃ new, ev' = ev ++ new ∧ ∀ e ∈ new, ∃ sub, IsPre (path ++ [sub]) e.path

theorem subLayoutsStep_events {env : Env K} {ord : Ord} {fuel : Nat}
    (hv : ∀ path b keys dir name, EvBelow path (verify env ord fuel path b keys dir name).2)
    (path : List Str) (L : Layout K) (dir : Dir K) (stepName : Str)
    (per : List (Str × Block K)) (acc : List (Str × Link)) (ev : List Event) :
    EvStrictlyBelowSince path ev (subLayoutsStep env ord fuel path L dir stepName per acc ev).2 := by
  induction per generalizing acc ev with
  | nil => rw [subLayoutsStep]; exact ⟨[], by simp, by simp⟩
  | cons x rest ih =>
    obtain ⟨kid, b⟩ := x
    rw [subLayoutsStep]
    split
    · exact ih _ _
    · split
      · exact ⟨[], by simp, by simp⟩
      · rename_i k hk
        simp only
        have hsub := hv (path ++ [stepName ++ '.' :: prefix8 kid]) b [k]
          (subDirOf dir (stepName ++ '.' :: prefix8 kid)) stepName
        split
        · rename_i l evs heq
          rw [heq] at hsub
          obtain ⟨new, h1, h2⟩ := ih (upsert kid l acc) (ev ++ evs)
          refine ⟨evs ++ new, by rw [h1]; simp, ?_⟩
          intro e he
          simp only [List.mem_append] at he
          rcases he with he | he
          · exact ⟨_, hsub e he⟩
          · exact h2 e he
        · rename_i c evs heq
          rw [heq] at hsub
          exact ⟨evs, rfl, fun e he => ⟨_, hsub e he⟩⟩
        · rename_i c evs heq
          rw [heq] at hsub
          exact ⟨evs, rfl, fun e he => ⟨_, hsub e he⟩⟩

theorem subLayouts_events {env : Env K} {ord : Ord} {fuel : Nat}
    (hv : ∀ path b keys dir name, EvBelow path (verify env ord fuel path b keys dir name).2)
    (path : List Str) (L : Layout K) (dir : Dir K)
    (vs : List (Str × List (Str × Block K))) (acc : List (Str × List (Str × Link))) (ev : List Event) :
    EvStrictlyBelowSince path ev (subLayouts env ord fuel path L dir vs acc ev).2 := by
  induction vs generalizing acc ev with
  | nil => rw [subLayouts]; exact ⟨[], by simp, by simp⟩
  | cons v rest ih =>
    obtain ⟨stepName, per⟩ := v
    rw [subLayouts]
    have hstep := subLayoutsStep_events hv path L dir stepName (ord.perm 3 per) [] ev
    split
    · rename_i c ev1 heq; rw [heq] at hstep; exact hstep
    · rename_i c ev1 heq; rw [heq] at hstep; exact hstep
    · rename_i pl ev1 heq
      rw [heq] at hstep
      obtain ⟨n1, e1, h1⟩ := hstep
      obtain ⟨n2, e2, h2⟩ := ih (upsert stepName pl acc) ev1
      simp only at e1
      refine ⟨n1 ++ n2, by rw [e2, e1]; simp, ?_⟩
      intro e he
      simp only [List.mem_append] at he
      rcases he with he | he
      · exact h1 e he
      · exact h2 e he

end InToto.Verify

namespace InToto.Verify
variable {K : Type}

theorem evStrictly_to_below {path : List Str} {ev' : List Event}
    (h : EvStrictlyBelowSince path [] ev') : ∀ e ∈ ev', IsPre path e.path ∧ e.path ≠ path := by
  obtain ⟨new, rfl, hn⟩ := h
  intro e he
  obtain ⟨sub, hs⟩ := hn e (by simpa using he)
  exact isPre_trans_append hs

/-- stages 1-9 of the layout at `path` all passed -/
structure PrePassed (env : Env K) (ord : Ord) (fuel : Nat) (path : List Str) (b : Block K) (keys : List K)
    (dir : Dir K) where
  L : Layout K
  loaded : List (Str × List (Str × Block K))
  verified : List (Str × List (Str × Block K))
  links : List (Str × List (Str × Link))
  ev : List Event
  reduced : List (Str × Link)
  hsig : verifyBlockK env ord b keys.length keys = .ok (.layout L)
  hexp : ¬ (L.expires < env.now path)
  hload : loadLinks dir L.steps [] = .ok loaded
  hthr : verifyThresholds env ord L loaded L.steps [] = .ok verified
  hsub : subLayouts env ord fuel path L dir (ord.perm 2 verified) [] [] = (.ok links, ev)
  hagree : checkAgreement ord links L.steps = .ok ()
  hred : reduceLinks links = .ok reduced
  hrules : itemRules 9 reduced (L.steps.map stepItem) = .ok ()

/-- Either a stage before the inspections failed — then the result is not a success and every
    recorded event belongs to a layout strictly below `path` — or stages 1-9 passed and the rest of
    the run is the inspection stage. -/
theorem verify_cases (env : Env K) (ord : Ord) (fuel : Nat)
    (hv : ∀ path b keys dir name, EvBelow path (verify env ord fuel path b keys dir name).2)
    (path : List Str) (b : Block K) (keys : List K) (dir : Dir K) (name : Str) :
    ((∀ s, (verify env ord (fuel + 1) path b keys dir name).1 ≠ .ok s) ∧
        ∀ e ∈ (verify env ord (fuel + 1) path b keys dir name).2, IsPre path e.path ∧ e.path ≠ path)
    ∨ ∃ p : PrePassed env ord fuel path b keys dir,
        verify env ord (fuel + 1) path b keys dir name =
          match runInspections env path p.L.inspect [] p.ev with
          | (.err c, ev') => (.err c, ev')
          | (.panic s, ev') => (.panic s, ev')
          | (.ok inspLinks, ev') =>
            match itemRules 11 (extend p.reduced inspLinks) (p.L.inspect.map inspItem) with
            | .err c => (.err c, ev')
            | .panic s => (.panic s, ev')
            | .ok () => (summary p.L (extend p.reduced inspLinks) name, ev') := by
  rw [verify]
  split
  · exact Or.inl ⟨by simp, by simp⟩
  · exact Or.inl ⟨by simp, by simp⟩
  · exact Or.inl ⟨by simp, by simp⟩
  · rename_i L hsig
    split
    · exact Or.inl ⟨by simp, by simp⟩
    · rename_i hexp
      split
      · exact Or.inl ⟨by simp, by simp⟩
      · exact Or.inl ⟨by simp, by simp⟩
      · rename_i loaded hload
        split
        · exact Or.inl ⟨by simp, by simp⟩
        · exact Or.inl ⟨by simp, by simp⟩
        · rename_i verified hthr
          have hsubev := subLayouts_events hv path L dir (ord.perm 2 verified) [] []
          split
          · rename_i c ev heq
            rw [heq] at hsubev
            exact Or.inl ⟨by simp, evStrictly_to_below hsubev⟩
          · rename_i c ev heq
            rw [heq] at hsubev
            exact Or.inl ⟨by simp, evStrictly_to_below hsubev⟩
          · rename_i links ev heq
            rw [heq] at hsubev
            have hbelow := evStrictly_to_below hsubev
            split
            · exact Or.inl ⟨by simp, hbelow⟩
            · exact Or.inl ⟨by simp, hbelow⟩
            · rename_i hagree
              split
              · exact Or.inl ⟨by simp, hbelow⟩
              · exact Or.inl ⟨by simp, hbelow⟩
              · rename_i reduced hred
                split
                · exact Or.inl ⟨by simp, hbelow⟩
                · exact Or.inl ⟨by simp, hbelow⟩
                · rename_i hrules
                  exact Or.inr ⟨⟨L, loaded, verified, links, ev, reduced, hsig, hexp, hload, hthr, heq, hagree,
                    hred, hrules⟩, rfl⟩

/-- all events recorded while verifying the layout at `path` belong to it or to layouts below it -/
theorem verify_evBelow (env : Env K) (ord : Ord) (fuel : Nat) :
    ∀ path b keys dir name, EvBelow path (verify env ord fuel path b keys dir name).2 := by
  induction fuel with
  | zero => intro path b keys dir name; rw [verify_zero]; intro e he; simp at he
  | succ f ih =>
    intro path b keys dir name
    rcases verify_cases env ord f ih path b keys dir name with ⟨_, h⟩ | ⟨p, hp⟩
    · intro e he; exact (h e he).1
    · rw [hp]
      have hsubev := subLayouts_events ih path p.L dir (ord.perm 2 p.verified) [] []
      rw [p.hsub] at hsubev
      have hbelow := evStrictly_to_below hsubev
      obtain ⟨new, hnew, hown⟩ := runInspections_events env path p.L.inspect [] p.ev
      have hall : ∀ e ∈ (runInspections env path p.L.inspect [] p.ev).2, IsPre path e.path := by
        rw [hnew]
        intro e he
        simp only [List.mem_append] at he
        rcases he with he | he
        · exact (hbelow e he).1
        · exact ⟨[], by rw [hown e he]; simp⟩
      intro e he
      split at he
      · rename_i c ev' heq; rw [heq] at hall; exact hall e he
      · rename_i c ev' heq; rw [heq] at hall; exact hall e he
      · rename_i il ev' heq
        rw [heq] at hall
        split at he <;> exact hall e he

end InToto.Verify
