import InTotoModel.Model.Time
/-
  Helper lemmas about `Model/Time.lean`: the calendar decomposition inverts Hinnant's day count and
  yields existing dates; two-, four- and nine-digit fields read back; fraction and zone readers on
  the texts the notations produce.
-/
namespace InToto.Time

-- ------------------------------------------------------------------ calendar

theorem yearPart (era c q a : Int) (hc : 0 ≤ c ∧ c ≤ 3) (hq : 0 ≤ q ∧ q ≤ 24) (ha : 0 ≤ a ∧ a ≤ 3) :
    let y' := era * 400 + c * 100 + q * 4 + a
    365 * y' + y' / 4 - y' / 100 + y' / 400 = era * 146097 + c * 36524 + q * 1461 + a * 365 := by
  intro y'
  have h4 : y' / 4 = era * 100 + c * 25 + q := by simp only [y']; omega
  have h100 : y' / 100 = era * 4 + c := by simp only [y']; omega
  have h400 : y' / 400 = era := by simp only [y']; omega
  rw [h4, h100, h400]; simp only [y']; omega

theorem monthPart (y' doy : Int) (h : 0 ≤ doy ∧ doy ≤ 365) :
    let mp := (5 * doy + 2) / 153
    let d := doy - (153 * mp + 2) / 5 + 1
    let m := if mp < 10 then mp + 3 else mp - 9
    let y := if m ≤ 2 then y' + 1 else y'
    (if m ≤ 2 then y - 1 else y) = y' ∧ (if m > 2 then m - 3 else m + 9) = mp ∧
    (153 * mp + 2) / 5 + d - 1 = doy ∧ 1 ≤ m ∧ m ≤ 12 ∧ 1 ≤ d ∧
    (m ≠ 2 → d ≤ daysInMonth y m) ∧ (m = 2 → d ≤ 28 ∨ (d = 29 ∧ doy = 365)) := by
  intro mp d m y
  have hmp : 0 ≤ mp ∧ mp ≤ 11 := by simp only [mp]; omega
  have hm : (mp < 10 → m = mp + 3) ∧ (¬ mp < 10 → m = mp - 9) := by
    simp only [m]; constructor <;> intro h' <;> simp [h']
  refine ⟨?_, ?_, ?_, ?_, ?_, ?_, ?_, ?_⟩
  · simp only [y]; split <;> omega
  · split <;> omega
  · simp only [d]; omega
  · omega
  · omega
  · simp only [d, mp]; omega
  · intro hne
    simp only [daysInMonth, if_neg hne]
    have hd : d = doy - (153 * mp + 2) / 5 + 1 := rfl
    have hmpd : mp = (5 * doy + 2) / 153 := rfl
    by_cases h10 : mp < 10
    · have := hm.1 h10
      split <;> omega
    · have := hm.2 h10
      split <;> omega
  · intro he
    have hd : d = doy - (153 * mp + 2) / 5 + 1 := rfl
    have hmpd : mp = (5 * doy + 2) / 153 := rfl
    by_cases h10 : mp < 10
    · have := hm.1 h10; omega
    · have := hm.2 h10; omega

/-- The decomposition of a day number, with everything later proofs need about it. -/
theorem civil_facts (z : Int) :
    let c := civilFromDays z
    daysFromCivil c.y c.m c.d = z ∧ 1 ≤ c.m ∧ c.m ≤ 12 ∧ 1 ≤ c.d ∧ c.d ≤ daysInMonth c.y c.m := by
  simp only [civilFromDays]
  generalize hera : (z + 719468) / 146097 = era
  generalize hdoe : (z + 719468) % 146097 = doe
  have hz : z + 719468 = era * 146097 + doe := by omega
  have hdoe' : 0 ≤ doe ∧ doe ≤ 146096 := by omega
  generalize hc : (if doe / 36524 ≥ 4 then 3 else doe / 36524) = c
  have hcb : 0 ≤ c ∧ c ≤ 3 ∧ 0 ≤ doe - c * 36524 ∧ doe - c * 36524 ≤ 36524 ∧
      (c < 3 → doe - c * 36524 ≤ 36523) := by
    subst hc; split <;> omega
  generalize hr1 : doe - c * 36524 = r1 at *
  generalize hq : r1 / 1461 = q
  generalize hr2 : r1 % 1461 = r2
  have hqb : 0 ≤ q ∧ q ≤ 24 ∧ r1 = q * 1461 + r2 ∧ 0 ≤ r2 ∧ r2 ≤ 1460 := by omega
  generalize ha : (if r2 / 365 ≥ 4 then 3 else r2 / 365) = a
  have hab : 0 ≤ a ∧ a ≤ 3 ∧ 0 ≤ r2 - a * 365 ∧ r2 - a * 365 ≤ 365 ∧
      (r2 - a * 365 = 365 → a = 3 ∧ r2 = 1460) := by
    subst ha; split <;> omega
  generalize hdoy : r2 - a * 365 = doy at *
  have hm := monthPart (era * 400 + c * 100 + q * 4 + a) doy ⟨hab.2.2.1, hab.2.2.2.1⟩
  have hcore := yearPart era c q a ⟨hcb.1, hcb.2.1⟩ ⟨hqb.1, hqb.2.1⟩ ⟨hab.1, hab.2.1⟩
  simp only at hm hcore
  obtain ⟨h1, h2, h3, h4, h5, h6, h7, h8⟩ := hm
  refine ⟨?_, h4, h5, h6, ?_⟩
  · simp only [daysFromCivil]
    rw [h1, h2]
    omega
  · generalize hmm : (if (5 * doy + 2) / 153 < 10 then (5 * doy + 2) / 153 + 3 else (5 * doy + 2) / 153 - 9) = m at *
    by_cases hm2 : m = 2
    · subst hm2
      have h8' := h8 rfl
      simp only [daysInMonth, if_true]
      rcases h8' with h8' | ⟨h8a, h8b⟩
      · split <;> omega
      · -- 29 February: the year is a leap year
        have ha3 := hab.2.2.2.2 h8b
        have hleap : isLeap (era * 400 + c * 100 + q * 4 + a + 1) = true := by
          simp only [isLeap, Bool.and_eq_true, Bool.or_eq_true, beq_iff_eq, bne_iff_ne, ne_eq]
          have hq' : q < 24 ∨ c = 3 := by
            by_cases hc3 : c < 3
            · have := hcb.2.2.2.2 hc3; omega
            · omega
          refine ⟨by omega, ?_⟩
          rcases hq' with hq' | hq'
          · left; omega
          · by_cases hq24 : q = 24
            · right; omega
            · left; omega
        simp only [show (2 : Int) ≤ 2 from by omega, if_true, hleap]
        omega
    · exact h7 hm2

theorem days_civil (z : Int) :
    daysFromCivil (civilFromDays z).y (civilFromDays z).m (civilFromDays z).d = z :=
  (civil_facts z).1

-- ------------------------------------------------------------------ digits

theorem dig_digitChar (n : Nat) : dig (digitChar n) = some (n % 10) := by
  have h : n % 10 < 10 := Nat.mod_lt _ (by omega)
  unfold digitChar
  generalize n % 10 = k at h
  match k, h with
  | 0, _ => rfl | 1, _ => rfl | 2, _ => rfl | 3, _ => rfl | 4, _ => rfl
  | 5, _ => rfl | 6, _ => rfl | 7, _ => rfl | 8, _ => rfl | 9, _ => rfl

theorem isDig_digitChar (n : Nat) : isDig (digitChar n) = true := by
  simp [isDig, dig_digitChar]

theorem num2_digits (a b : Nat) : num2 (digitChar a) (digitChar b) = some (10 * (a % 10) + b % 10) := by
  simp [num2, dig_digitChar]

theorem num2_two {n : Nat} (h : n < 100) : num2 (digitChar (n / 10)) (digitChar n) = some n := by
  rw [num2_digits]; congr 1; omega

theorem num4_four {n : Nat} (h : n < 10000) :
    num4 (digitChar (n / 1000)) (digitChar (n / 100)) (digitChar (n / 10)) (digitChar n) = some n := by
  simp only [num4, num2_digits]; congr 1; omega

theorem dig_not_digit {c : Char} (h : isDig c = false) : dig c = none := by
  simpa [isDig] using h

-- ------------------------------------------------------------------ fraction

theorem digitsVal_append (xs ys : List Char) (acc : Nat) :
    digitsVal (xs ++ ys) acc = digitsVal ys (digitsVal xs acc) := by
  induction xs generalizing acc with
  | nil => rfl
  | cons x xs ih => simp [digitsVal, ih]

theorem digitsVal_nine {n : Nat} (h : n < 1000000000) : digitsVal (nine n) 0 = n := by
  simp only [nine, digitsVal, dig_digitChar, Option.getD_some]
  omega

theorem takeWhile_isDig_append {ds rest : List Char} (hds : ∀ c ∈ ds, isDig c = true)
    (hrest : ∀ c r, rest = c :: r → isDig c = false) :
    (ds ++ rest).takeWhile isDig = ds ∧ (ds ++ rest).dropWhile isDig = rest := by
  induction ds with
  | nil =>
    cases rest with
    | nil => simp
    | cons c r => simp [hrest c r rfl]
  | cons d ds ih =>
    have hd := hds d (by simp)
    have ih' := ih (fun c hc => hds c (by simp [hc]))
    simp [hd, ih'.1, ih'.2]

theorem parseFrac_nine {n : Nat} (h : n < 1000000000) {extra rest : List Char}
    (hextra : ∀ c ∈ extra, isDig c = true) (hrest : ∀ c r, rest = c :: r → isDig c = false) :
    parseFrac (nine n ++ extra ++ rest) = some (n, rest) := by
  have hds : ∀ c ∈ nine n ++ extra, isDig c = true := by
    intro c hc
    rcases List.mem_append.mp hc with hc | hc
    · simp only [nine, List.mem_cons, List.not_mem_nil, or_false] at hc
      rcases hc with h | h | h | h | h | h | h | h | h <;> subst h <;> exact isDig_digitChar _
    · exact hextra c hc
  obtain ⟨ht, hd⟩ := takeWhile_isDig_append hds hrest
  unfold parseFrac
  simp only [ht, hd]
  have hne : (nine n ++ extra).isEmpty = false := by simp [nine]
  have htake : (nine n ++ extra).take 9 = nine n := by
    have : (nine n).length = 9 := rfl
    rw [List.take_append_of_le_length (by omega)]
    exact List.take_of_length_le (by omega)
  simp only [hne, htake, digitsVal_nine h]
  simp [nine]

-- ------------------------------------------------------------------ zone

theorem zoneText_head (n : Notation) (hv : n.Valid) :
    ∀ c r, zoneText n = c :: r → isDig c = false ∧ c ≠ '.' := by
  intro c r h
  obtain ⟨_, _, _, hz, hmin, _⟩ := hv
  unfold zoneText at h
  cases hzu : n.zulu with
  | some z =>
    rw [hzu] at h
    simp only [List.cons.injEq] at h
    obtain ⟨rfl, _⟩ := h
    rcases (hz z hzu).1 with rfl | rfl <;> decide
  | none =>
    rw [hzu] at h
    simp only [List.cons.injEq] at h
    obtain ⟨rfl, _⟩ := h
    split
    · rcases hmin with h' | h' <;> rw [h'] <;> decide
    · decide

theorem zoneText_nondigit (n : Notation) (hv : n.Valid) :
    ∀ c r, zoneText n = c :: r → isDig c = false :=
  fun c r h => (zoneText_head n hv c r h).1

theorem parseZone_zoneText (n : Notation) (hv : n.Valid) : parseZone (zoneText n) = some (n.offMin * 60) := by
  obtain ⟨hlo, hhi, _, hz, hmin, _⟩ := hv
  unfold zoneText
  cases hzu : n.zulu with
  | some z =>
    have := hz z hzu
    simp only [parseZone]
    rw [if_pos this.1, this.2]; rfl
  | none =>
    simp only [two, List.cons_append, List.nil_append, parseZone]
    have ha : n.offMin.natAbs < 1440 := by omega
    have h1 : num2 (digitChar (n.offMin.natAbs / 60 / 10)) (digitChar (n.offMin.natAbs / 60)) =
        some (n.offMin.natAbs / 60) := num2_two (by omega)
    have h2 : num2 (digitChar (n.offMin.natAbs % 60 / 10)) (digitChar (n.offMin.natAbs % 60)) =
        some (n.offMin.natAbs % 60) := num2_two (by omega)
    simp only [h1, h2, ne_eq, not_true_eq_false, if_false]
    have hb : ¬ (n.offMin.natAbs % 60 ≥ 60 ∨ n.offMin.natAbs / 60 * 3600 + n.offMin.natAbs % 60 * 60 ≥ 86400) := by
      omega
    by_cases hneg : n.offMin < 0
    · simp only [if_pos hneg]
      have hsg : (if n.minus = '+' then some false else if n.minus = '-' ∨ n.minus = '−' then some true else none)
          = some true := by
        rcases hmin with h' | h' <;> rw [h'] <;> decide
      simp only [hsg, if_neg hb, if_true]
      congr 1; omega
    · simp only [if_neg hneg, if_true, if_neg hb]
      simp only [Bool.false_eq_true, if_false]
      congr 1; omega

end InToto.Time
