import InTotoModel.Lemmas.Determinism
import InTotoModel.Spec.Verify
/-
  The code-shaped pipeline model (`Model/Verify.lean`) computes the specification
  (`Spec/Verify.lean`): `okPart (verify env ord fuel …).1 = accepts env fuel …` for every valid family
  of iteration orders.  Stage by stage: each loop of the model is shown to compute the selection the
  specification names; tables are related up to the order of their entries and every consumer reads
  them by `lookup`, by all-pairs conditions or by `minEntry` only.
-/
namespace InToto.VerifySpec
open InToto InToto.Verify InToto.Rules InToto.Threshold

variable {K : Type}

/-! ### clause 1: signatures -/

section sigs
variable {α : Type}

theorem mem_dedupLast_of_lastFind {k : Str} {v : α} {l : List (Str × α)} (h : lastFind k l = some v) :
    (k, v) ∈ dedupLast l := by
  induction l with
  | nil => simp [lastFind] at h
  | cons p r ih =>
    obtain ⟨k', v'⟩ := p
    simp only [lastFind] at h
    simp only [dedupLast]
    cases hl : lastFind k r with
    | some w =>
      rw [hl] at h
      cases h
      split
      · exact ih hl
      · exact List.mem_cons_of_mem _ (ih hl)
    | none =>
      rw [hl] at h
      by_cases e : k = k'
      · subst e
        simp at h
        subst h
        have : r.any (fun p => p.1 == k) = false := by
          cases hb : r.any (fun p => p.1 == k) with
          | false => rfl
          | true =>
            exfalso
            simp only [List.any_eq_true] at hb
            obtain ⟨p, hp, hk⟩ := hb
            have hk' : p.1 = k := by simpa using hk
            obtain ⟨w, hw⟩ := lastFind_isSome_of_mem (k := k) (v := p.2) (r := r) (by rw [← hk']; exact hp)
            rw [hl] at hw; cases hw
        rw [this]
        simp
      · simp [e] at h

theorem lastFind_of_mem_dedupLast {k : Str} {v : α} {l : List (Str × α)} (h : (k, v) ∈ dedupLast l) :
    lastFind k l = some v := by
  induction l with
  | nil => simp [dedupLast] at h
  | cons p r ih =>
    obtain ⟨k', v'⟩ := p
    simp only [dedupLast] at h
    simp only [lastFind]
    split at h
    · rw [ih h]
    · rename_i hany
      simp only [List.mem_cons, Prod.mk.injEq] at h
      rcases h with ⟨rfl, rfl⟩ | h
      · have : lastFind k r = none := by
          apply lastFind_none
          intro hm
          obtain ⟨p, hp, hpk⟩ := List.mem_map.mp hm
          apply hany
          simp only [List.any_eq_true]
          exact ⟨p, hp, by simp [hpk]⟩
        rw [this]; simp
      · rw [ih h]

theorem lastFind_of_nodup_mem {k : Str} {v : α} {l : List (Str × α)} (hn : (l.map Prod.fst).Nodup) (h : (k, v) ∈ l) :
    lastFind k l = some v := by
  apply lastFind_of_mem_dedupLast
  rw [dedupLast_of_nodup hn]
  exact h

end sigs

theorem nodup_of_nodup_map {α β : Type} (f : α → β) {l : List α} (h : (l.map f).Nodup) : l.Nodup := by
  induction l with
  | nil => exact List.nodup_nil
  | cons a r ih =>
    simp only [List.map_cons, List.nodup_cons] at h
    refine List.nodup_cons.mpr ⟨?_, ih h.2⟩
    intro hm
    exact h.1 (List.mem_map.mpr ⟨a, hm, rfl⟩)

theorem distinct_iff (l : List Str) : distinct l = true ↔ l.Nodup := by
  induction l with
  | nil => simp [distinct]
  | cons a r ih =>
    simp only [distinct, Bool.and_eq_true, Bool.not_eq_true', List.nodup_cons, ih]
    constructor
    · intro ⟨h1, h2⟩
      refine ⟨?_, h2⟩
      intro hm
      have : r.contains a = true := by simpa using hm
      rw [this] at h1; cases h1
    · intro ⟨h1, h2⟩
      refine ⟨?_, h2⟩
      cases hc : r.contains a with
      | false => rfl
      | true => exfalso; exact h1 (by simpa using hc)

/-- The signature stage with as many required signatures as there are keys succeeds exactly when
    clause 1 holds. -/
theorem verifySigs_all_iff (env : Env K) (ord : Ord) (hord : ord.Valid) (b : Block K) (keys : List K) :
    verifySigs env.kidOf (fun k v => env.valid k b.signed v) (ord.perm 0) b.sigs keys.length keys = .ok () ↔
      ownersSigned env b keys = true := by
  rw [c04_verify_iff _ _ _ (hord 0 _)]
  unfold goodCount ownersSigned
  constructor
  · intro ⟨hs, h1, hlen⟩
    -- the good entries, by key id
    let G := (dedupLast (pairs b.sigs)).filter (good (fun k v => env.valid k b.signed v) (tbl env.kidOf keys))
    have hGn : (G.map Prod.fst).Nodup :=
      List.Nodup.sublist ((List.filter_sublist).map Prod.fst) (dedupLast_keys_nodup _)
    have hsub : ∀ id ∈ G.map Prod.fst, id ∈ keys.map env.kidOf := by
      intro id hid
      obtain ⟨e, he, rfl⟩ := List.mem_map.mp hid
      have hg := (List.mem_filter.mp he).2
      unfold good at hg
      split at hg
      · rename_i k hk
        have := lastFind_mem hk
        unfold tbl at this
        obtain ⟨k', hk', heq⟩ := List.mem_map.mp this
        simp only [Prod.mk.injEq] at heq
        exact List.mem_map.mpr ⟨k', hk', heq.1⟩
      · cases hg
    have hlen' : keys.length ≤ (G.map Prod.fst).length := by simpa using hlen
    have ⟨hnodup, hcover⟩ := nodup_of_covering env.kidOf keys (G.map Prod.fst) hGn hsub hlen'
    simp only [Bool.and_eq_true, Bool.not_eq_true', List.all_eq_true]
    refine ⟨⟨?_, (distinct_iff _).mpr hnodup⟩, ?_⟩
    · cases keys with
      | nil => simp at h1
      | cons _ _ => rfl
    · intro k hk
      obtain ⟨e, he, heq⟩ := List.mem_map.mp (hcover k hk)
      have hmem := List.mem_filter.mp he
      have hg := hmem.2
      unfold good at hg
      split at hg
      · rename_i k' hk'
        have := lastFind_mem hk'
        unfold tbl at this
        obtain ⟨k'', hk'', heq2⟩ := List.mem_map.mp this
        simp only [Prod.mk.injEq] at heq2
        have hkk : k'' = k := eq_of_nodup_map env.kidOf hnodup hk'' hk (by rw [heq2.1, heq])
        have hk'k : k' = k := by rw [← heq2.2, hkk]
        subst hk'k
        have hlast : lastFind e.1 (pairs b.sigs) = some e.2 := lastFind_of_mem_dedupLast (by simpa using hmem.1)
        unfold signedBy sigFor
        rw [← heq]
        unfold pairs at hlast
        rw [hlast]
        exact hg
      · cases hg
  · intro h
    simp only [Bool.and_eq_true, Bool.not_eq_true', List.all_eq_true] at h
    obtain ⟨⟨hne, hd⟩, hall⟩ := h
    have hnodup : (keys.map env.kidOf).Nodup := (distinct_iff _).mp hd
    have hkne : keys ≠ [] := by
      intro e; subst e; simp at hne
    -- every key contributes its own entry
    let M := keys.map fun k => (env.kidOf k, (sigFor b (env.kidOf k)).getD [])
    have hMn : M.Nodup := by
      have : (M.map Prod.fst) = keys.map env.kidOf := by simp [M, List.map_map, Function.comp_def]
      exact nodup_of_nodup_map Prod.fst (by rw [this]; exact hnodup)
    have htbl : ((tbl env.kidOf keys).map Prod.fst).Nodup := by
      unfold tbl
      simpa [List.map_map, Function.comp_def] using hnodup
    have hMsub : M ⊆ (dedupLast (pairs b.sigs)).filter (good (fun k v => env.valid k b.signed v) (tbl env.kidOf keys)) := by
      intro e he
      obtain ⟨k, hk, rfl⟩ := List.mem_map.mp he
      have hs := hall k hk
      unfold signedBy at hs
      cases hsf : sigFor b (env.kidOf k) with
      | none => rw [hsf] at hs; cases hs
      | some v =>
        rw [hsf] at hs
        simp only [Option.getD_some]
        refine List.mem_filter.mpr ⟨?_, ?_⟩
        · apply mem_dedupLast_of_lastFind
          unfold sigFor at hsf
          exact hsf
        · unfold good
          have : lastFind (env.kidOf k) (tbl env.kidOf keys) = some k :=
            lastFind_of_nodup_mem htbl (by unfold tbl; exact List.mem_map.mpr ⟨k, hk, rfl⟩)
          simp only [this]
          exact hs
    have hlen := List.Nodup.length_le_of_subset hMn hMsub
    have hMlen : M.length = keys.length := by simp [M]
    refine ⟨?_, ?_, by omega⟩
    · -- some key signed, so there is a signature
      intro hsigs
      cases keys with
      | nil => exact hkne rfl
      | cons k _ =>
        have hs := hall k (by simp)
        unfold signedBy sigFor at hs
        rw [hsigs] at hs
        simp [lastFind] at hs
    · cases keys with
      | nil => exact absurd rfl hkne
      | cons _ _ => simp

/-- clause 1 as the outcome of the model's first stage -/
theorem okPart_verifyBlockK_all (env : Env K) (ord : Ord) (hord : ord.Valid) (b : Block K) (keys : List K) :
    okPart (verifyBlockK env ord b keys.length keys) = if ownersSigned env b keys then some b.signed else none := by
  have h := verifySigs_all_iff env ord hord b keys
  unfold verifyBlockK verifyBlock
  cases hv : verifySigs env.kidOf (fun k v => env.valid k b.signed v) (ord.perm 0) b.sigs keys.length keys with
  | ok u =>
    cases u
    rw [h.mp hv]; rfl
  | err c =>
    have : ownersSigned env b keys = false := by
      cases ho : ownersSigned env b keys with
      | false => rfl
      | true => rw [h.mpr ho] at hv; cases hv
    rw [this]; rfl
  | panic c =>
    have : ownersSigned env b keys = false := by
      cases ho : ownersSigned env b keys with
      | false => rfl
      | true => rw [h.mpr ho] at hv; cases hv
    rw [this]; rfl

theorem ownersSigned_single (env : Env K) (b : Block K) (k : K) : ownersSigned env b [k] = signedBy env b k := by
  simp [ownersSigned, distinct]

/-- a piece of evidence is counted by the model exactly when the specification counts it -/
theorem countedB_eq_counts (env : Env K) (ord : Ord) (hord : ord.Valid) (L : Layout K) (st : Step) :
    countedB env ord L st = counts env L st := by
  funext e
  unfold countedB counts
  by_cases hp : e.1 ∈ st.pubkeys
  · simp only [hp, if_true, decide_true, Bool.true_and]
    cases hk : lookup e.1 L.keys with
    | none => rfl
    | some k =>
      simp only
      have h := okPart_verifyBlockK_all env ord hord e.2 [k]
      simp only [List.length_singleton, ownersSigned_single] at h
      cases hv : verifyBlockK env ord e.2 1 [k] with
      | ok m =>
        rw [hv] at h
        simp only [okPart] at h
        cases hs : signedBy env e.2 k with
        | true => rfl
        | false => rw [hs] at h; simp at h
      | err c =>
        rw [hv] at h
        simp only [okPart] at h
        cases hs : signedBy env e.2 k with
        | true => rw [hs] at h; simp at h
        | false => rfl
      | panic c =>
        rw [hv] at h
        simp only [okPart] at h
        cases hs : signedBy env e.2 k with
        | true => rw [hs] at h; simp at h
        | false => rfl
  · simp [hp]

end InToto.VerifySpec

namespace InToto.VerifySpec
open InToto InToto.Verify InToto.Rules InToto.Threshold

variable {K : Type}

/-! ### tables with distinct keys are determined, up to order, by what `lookup` answers -/

section tables
variable {α : Type}

theorem lookup_append (k : Str) (s t : List (Str × α)) :
    lookup k (s ++ t) = match lookup k s with | some v => some v | none => lookup k t := by
  induction s with
  | nil => simp [lookup]
  | cons p r ih =>
    obtain ⟨k', v'⟩ := p
    simp only [List.cons_append, lookup]
    split
    · rfl
    · exact ih

theorem lookup_eq_none_iff {k : Str} {l : List (Str × α)} : lookup k l = none ↔ k ∉ l.map Prod.fst := by
  induction l with
  | nil => simp [lookup]
  | cons p r ih =>
    obtain ⟨k', v'⟩ := p
    simp only [lookup, List.map_cons, List.mem_cons, not_or]
    by_cases e : k' = k
    · simp [e]
    · simp only [e, if_false, ih]
      constructor
      · intro h; exact ⟨fun c => e c.symm, h⟩
      · intro h; exact h.2

theorem perm_of_lookup_eq {a b : List (Str × α)} (ha : KeysNodup a) (hb : KeysNodup b)
    (h : ∀ k, lookup k a = lookup k b) : a.Perm b := by
  induction a generalizing b with
  | nil =>
    cases b with
    | nil => exact List.Perm.refl _
    | cons p r =>
      have := h p.1
      simp [lookup] at this
  | cons p a' ih =>
    obtain ⟨k, v⟩ := p
    have hk : lookup k b = some v := by rw [← h k]; simp [lookup]
    obtain ⟨s, t, rfl⟩ := List.append_of_mem (mem_of_lookup hk)
    have hb' : KeysNodup (s ++ t) := by
      have := hb
      simp only [KeysNodup, List.map_append, List.map_cons] at this ⊢
      rw [List.nodup_append] at this ⊢
      refine ⟨this.1, (List.nodup_cons.mp this.2.1).2, ?_⟩
      intro x hx y hy
      exact this.2.2 x hx y (List.mem_cons_of_mem _ hy)
    have hks : k ∉ s.map Prod.fst := by
      intro hm
      have := hb
      simp only [KeysNodup, List.map_append, List.map_cons] at this
      rw [List.nodup_append] at this
      exact this.2.2 k hm k (by simp) rfl
    have hkt : k ∉ t.map Prod.fst := by
      have := hb
      simp only [KeysNodup, List.map_append, List.map_cons] at this
      rw [List.nodup_append] at this
      exact (List.nodup_cons.mp this.2.1).1
    have ha' : KeysNodup a' := by
      have := ha
      simp only [KeysNodup, List.map_cons] at this
      exact (List.nodup_cons.mp this).2
    have hka : k ∉ a'.map Prod.fst := by
      have := ha
      simp only [KeysNodup, List.map_cons] at this
      exact (List.nodup_cons.mp this).1
    have hrest : ∀ k', lookup k' a' = lookup k' (s ++ t) := by
      intro k'
      by_cases e : k' = k
      · subst e
        rw [lookup_eq_none_iff.mpr hka, lookup_append, lookup_eq_none_iff.mpr hks]
        simp only
        exact (lookup_eq_none_iff.mpr hkt).symm
      · have := h k'
        simp only [lookup, lookup_append] at this
        have ne : ¬ k = k' := fun c => e c.symm
        simp only [ne, if_false] at this
        rw [this, lookup_append]
    exact (List.Perm.cons _ (ih ha' hb' hrest)).trans List.perm_middle.symm

/-- `HashMap::extend`: what it answers for a key -/
theorem lookup_extend (k : Str) (m r : List (Str × α)) :
    lookup k (extend m r) = match lookup k r.reverse with | some v => some v | none => lookup k m := by
  induction r generalizing m with
  | nil => simp [extend, lookup]
  | cons p r ih =>
    obtain ⟨k', v'⟩ := p
    simp only [extend, List.reverse_cons]
    rw [ih, lookup_append]
    cases lookup k r.reverse with
    | some v => rfl
    | none =>
      simp only [lookup]
      by_cases e : k' = k
      · subst e; simp [lookup_upsert_self]
      · simp only [e, if_false]
        exact lookup_upsert_ne (fun c => e c.symm) _ _

theorem keysNodup_extend {m : List (Str × α)} (r : List (Str × α)) (h : KeysNodup m) : KeysNodup (extend m r) := by
  induction r generalizing m with
  | nil => exact h
  | cons p r ih => exact ih (nodup_upsert _ _ h)

theorem lookup_reverse_eq_lastFind (k : Str) (l : List (Str × α)) : lookup k l.reverse = lastFind k l := by
  induction l with
  | nil => rfl
  | cons p r ih =>
    obtain ⟨k', v'⟩ := p
    simp only [List.reverse_cons, lookup_append, lastFind, ih]
    cases lastFind k r with
    | some w => rfl
    | none =>
      simp only [lookup]
      by_cases e : k = k'
      · subst e; simp
      · have : ¬ k' = k := fun c => e c.symm
        simp [e, this]

theorem lookup_dedupLast (k : Str) (l : List (Str × α)) : lookup k (dedupLast l) = lastFind k l := by
  cases h : lastFind k l with
  | some v =>
    exact lookup_of_mem (dedupLast_keys_nodup l) (mem_dedupLast_of_lastFind h)
  | none =>
    apply lookup_eq_none_iff.mpr
    intro hm
    obtain ⟨p, hp, hpk⟩ := List.mem_map.mp hm
    have := lastFind_of_mem_dedupLast (k := p.1) (v := p.2) hp
    rw [hpk, h] at this
    cases this

/-- inserting one after the other into an empty table, or keeping the last entry of every key: the
    same entries -/
theorem extend_nil_perm_dedupLast (l : List (Str × α)) : (extend [] l).Perm (dedupLast l) := by
  apply perm_of_lookup_eq (keysNodup_extend l (by simp [KeysNodup])) (dedupLast_keys_nodup l)
  intro k
  rw [lookup_extend, lookup_dedupLast, lookup_reverse_eq_lastFind]
  cases lastFind k l <;> simp [lookup]

end tables

end InToto.VerifySpec

namespace InToto.VerifySpec
open InToto InToto.Verify InToto.Rules InToto.Threshold

variable {K : Type}

/-! ### clauses 3 and 4: loading the evidence -/

def readableL (stepName : Str) (files : List (Str × FileC K)) : Bool :=
  files.all fun f => !matchesStepFile stepName f.1 || (match f.2 with | .unreadable => false | .block _ => true)

theorem matchSignatures_eq (stepName fname : Str) (b : Block K) (acc : List (Str × Block K))
    (hm : matchesStepFile stepName fname = true) :
    matchSignatures b (fileShortId stepName fname) acc =
      extend acc (filedUnder stepName (fname, FileC.block b)).toList := by
  unfold matchSignatures filedUnder
  simp only [hm, if_true]
  cases b.sigs.find? (fun s => prefix8 s.kid = fileShortId stepName fname) with
  | none => simp [extend]
  | some s => simp [extend]

theorem extend_append {α : Type} (m a b : List (Str × α)) : extend m (a ++ b) = extend (extend m a) b := by
  induction a generalizing m with
  | nil => rfl
  | cons p r ih => simp only [List.cons_append, extend]; exact ih _

/-- the loading loop of one step: all matching files readable, and then the table built from the
    files' filings -/
theorem loadStepFiles_eq (stepName : Str) (files : List (Str × FileC K)) (acc : List (Str × Block K)) :
    loadStepFiles stepName files acc =
      if readableL stepName files then .ok (extend acc (files.filterMap (filedUnder stepName))) else .err 3 := by
  induction files generalizing acc with
  | nil => simp [loadStepFiles, readableL, extend]
  | cons f rest ih =>
    obtain ⟨fname, c⟩ := f
    simp only [loadStepFiles]
    by_cases hm : matchesStepFile stepName fname = true
    · simp only [hm, if_true]
      cases c with
      | unreadable => simp [readableL, hm]
      | block b =>
        simp only
        rw [ih, matchSignatures_eq stepName fname b acc hm]
        have hr : readableL stepName ((fname, FileC.block b) :: rest) = readableL stepName rest := by
          simp [readableL, hm]
        rw [hr]
        cases hf : filedUnder stepName (fname, FileC.block b) with
        | none => simp [List.filterMap_cons, hf, extend]
        | some e => simp [List.filterMap_cons, hf, extend]
    · have hm' : matchesStepFile stepName fname = false := by simpa using hm
      simp only [hm', Bool.false_eq_true, if_false]
      rw [ih]
      have hr : readableL stepName ((fname, c) :: rest) = readableL stepName rest := by
        simp [readableL, hm']
      have hf : filedUnder stepName (fname, c) = none := by simp [filedUnder, hm']
      rw [hr]
      simp [List.filterMap_cons, hf]

theorem readable_eq (dir : Dir K) (stepName : Str) : readable dir stepName = readableL stepName dir.files := rfl

/-- what the model loads for a step -/
def loadedOf (dir : Dir K) (stepName : Str) : List (Str × Block K) :=
  extend [] (dir.files.filterMap (filedUnder stepName))

theorem loadedOf_perm (dir : Dir K) (stepName : Str) : (loadedOf dir stepName).Perm (evidence dir stepName) :=
  extend_nil_perm_dedupLast _

theorem loadedOf_nodup (dir : Dir K) (stepName : Str) : KeysNodup (loadedOf dir stepName) :=
  keysNodup_extend _ (by simp [KeysNodup])

def stepLoadable (dir : Dir K) (st : Step) : Bool :=
  globSafe st.name && stepPatternOk st.name && readable dir st.name && !decide ((loadedOf dir st.name).length < st.threshold)

/-- stage 3 as a whole -/
theorem loadLinks_eq (dir : Dir K) (steps : List Step) (acc : List (Str × List (Str × Block K))) :
    okPart (loadLinks dir steps acc) =
      if steps.all (stepLoadable dir) then some (extend acc (steps.map fun st => (st.name, loadedOf dir st.name))) else none := by
  induction steps generalizing acc with
  | nil => simp [loadLinks, okPart, extend]
  | cons st rest ih =>
    simp only [loadLinks, List.all_cons]
    by_cases hn : (globSafe st.name && stepPatternOk st.name) = true
    · simp only [hn, Bool.not_true, Bool.false_eq_true, if_false]
      rw [loadStepFiles_eq]
      by_cases hr : readableL st.name dir.files = true
      · simp only [hr, if_true]
        by_cases hl : (extend [] (dir.files.filterMap (filedUnder st.name))).length < st.threshold
        · simp only [hl, if_true]
          have : stepLoadable dir st = false := by
            simp only [stepLoadable, loadedOf, hl, decide_true, Bool.not_true, Bool.and_false]
          simp [this, okPart]
        · simp only [hl, if_false]
          rw [ih]
          have : stepLoadable dir st = true := by
            simp only [stepLoadable, loadedOf, readable_eq, hr, hl, decide_false, Bool.not_false, Bool.and_true]
            exact hn
          simp only [this, Bool.true_and, List.map_cons, extend, loadedOf]
      · have hr' : readableL st.name dir.files = false := by simpa using hr
        simp only [hr', Bool.false_eq_true, if_false]
        have : stepLoadable dir st = false := by
          simp [stepLoadable, readable_eq, hr']
        simp [this, okPart]
    · have hn' : (globSafe st.name && stepPatternOk st.name) = false := by simpa using hn
      simp only [hn', Bool.not_false, if_true]
      have : stepLoadable dir st = false := by
        simp only [stepLoadable]
        rw [hn']; simp
      cases hne : nameErr st.name <;> simp [this, okPart]

end InToto.VerifySpec

namespace InToto.VerifySpec
open InToto InToto.Verify InToto.Rules InToto.Threshold

variable {K : Type}

/-! ### clause 4: thresholds -/

def thrCond (env : Env K) (ord : Ord) (L : Layout K) (loaded : List (Str × List (Str × Block K)))
    (steps : List Step) (acc : List (Str × List (Str × Block K))) : Bool :=
  steps.all (fun st => !decide ((goodOf env ord L loaded st).length < st.threshold)) &&
    distinct (steps.map Step.name) && steps.all (fun st => (lookup st.name acc).isNone)

theorem lookup_upsert {α : Type} (k k' : Str) (v : α) (l : List (Str × α)) :
    lookup k' (upsert k v l) = if k = k' then some v else lookup k' l := by
  by_cases e : k = k'
  · subst e; simp [lookup_upsert_self]
  · simp only [e, if_false]; exact lookup_upsert_ne (fun c => e c.symm) _ _

theorem verifyThresholds_eq (env : Env K) (ord : Ord) (L : Layout K) (loaded : List (Str × List (Str × Block K)))
    (steps : List Step) (acc : List (Str × List (Str × Block K))) :
    okPart (verifyThresholds env ord L loaded steps acc) =
      if thrCond env ord L loaded steps acc then
        some (extend acc (steps.map fun st => (st.name, goodOf env ord L loaded st)))
      else none := by
  induction steps generalizing acc with
  | nil => simp [verifyThresholds, okPart, thrCond, distinct, extend]
  | cons st rest ih =>
    simp only [verifyThresholds]
    change okPart (if (decide ((goodOf env ord L loaded st).length < st.threshold) || (lookup st.name acc).isSome) = true then .err 4
        else verifyThresholds env ord L loaded rest (upsert st.name (goodOf env ord L loaded st) acc)) = _
    by_cases hc : (decide ((goodOf env ord L loaded st).length < st.threshold) || (lookup st.name acc).isSome) = true
    · simp only [hc, if_true, okPart]
      have : thrCond env ord L loaded (st :: rest) acc = false := by
        simp only [thrCond, List.all_cons]
        simp only [Bool.or_eq_true, decide_eq_true_eq] at hc
        rcases hc with h | h
        · simp [h]
        · cases hl : lookup st.name acc with
          | none => rw [hl] at h; cases h
          | some v => simp
      rw [this]; rfl
    · have hc' : (decide ((goodOf env ord L loaded st).length < st.threshold) || (lookup st.name acc).isSome) = false := by
        simpa using hc
      simp only [hc', Bool.false_eq_true, if_false]
      rw [ih]
      simp only [Bool.or_eq_false_iff, decide_eq_false_iff_not] at hc'
      obtain ⟨h1, h2⟩ := hc'
      have hnone : lookup st.name acc = none := by
        cases hl : lookup st.name acc with
        | none => rfl
        | some v => rw [hl] at h2; cases h2
      have hcond : thrCond env ord L loaded rest (upsert st.name (goodOf env ord L loaded st) acc) =
          thrCond env ord L loaded (st :: rest) acc := by
        rw [Bool.eq_iff_iff]
        simp only [thrCond, List.all_cons, List.map_cons, distinct, Bool.and_eq_true, Bool.not_eq_true',
          decide_eq_false_iff_not, List.all_eq_true, hnone, Option.isNone_none, lookup_upsert, distinct_iff]
        constructor
        · intro ⟨⟨ha, hd⟩, hn⟩
          refine ⟨⟨⟨h1, ha⟩, ?_, hd⟩, trivial, ?_⟩
          · cases hcn : (List.map Step.name rest).contains st.name with
            | false => rfl
            | true =>
              exfalso
              have : st.name ∈ List.map Step.name rest := by simpa using hcn
              obtain ⟨s, hs, hse⟩ := List.mem_map.mp this
              have := hn s hs
              rw [hse] at this
              simp at this
          · intro s hs
            have := hn s hs
            by_cases e : st.name = s.name
            · rw [if_pos e] at this; simp at this
            · rw [if_neg e] at this; exact this
        · intro ⟨⟨⟨_, ha⟩, hcn, hd⟩, _, hn⟩
          refine ⟨⟨ha, hd⟩, ?_⟩
          intro s hs
          have hne : st.name ≠ s.name := by
            intro e
            have : (List.map Step.name rest).contains st.name = true := by
              simp only [List.contains_eq_mem, decide_eq_true_eq]
              exact List.mem_map.mpr ⟨s, hs, e.symm⟩
            rw [this] at hcn; cases hcn
          rw [if_neg hne]
          exact hn s hs
      rw [hcond]
      simp only [List.map_cons, extend]

end InToto.VerifySpec

namespace InToto.VerifySpec
open InToto InToto.Verify InToto.Rules InToto.Threshold

variable {K : Type}

/-! ### helpers for the later stages -/

/-- hash-map iterations in the order the tables happen to be in -/
def idO : Ord := { perm := fun _ {_} l => l }

theorem idO_valid : idO.Valid := fun _ _ l => List.Perm.refl l

section helpers
variable {α β γ : Type}

theorem allSome_map (f : β → Option γ) (g : α → β) (l : List α) : allSome f (l.map g) = allSome (fun a => f (g a)) l := by
  induction l with
  | nil => rfl
  | cons a r ih => simp only [List.map_cons, allSome, ih]

/-- element-wise related lists -/
inductive RelL (R : α → β → Prop) : List α → List β → Prop
  | nil : RelL R [] []
  | cons {a : α} {b : β} {l : List α} {l' : List β} : R a b → RelL R l l' → RelL R (a :: l) (b :: l')

theorem allSome_relL {R : β → γ → Prop} {f : α → Option β} {g : α → Option γ} {l : List α}
    (h : ∀ a ∈ l, OptRel R (f a) (g a)) : OptRel (RelL R) (allSome f l) (allSome g l) := by
  induction l with
  | nil => simp only [allSome, OptRel]; exact RelL.nil
  | cons a r ih =>
    have ha := h a (by simp)
    have hr := ih (fun x hx => h x (List.mem_cons_of_mem _ hx))
    simp only [allSome]
    cases hf : f a with
    | none =>
      rw [hf] at ha
      cases hg : g a with
      | none => simp [OptRel]
      | some y => rw [hg] at ha; simp [OptRel] at ha
    | some x =>
      rw [hf] at ha
      cases hg : g a with
      | none => rw [hg] at ha; simp [OptRel] at ha
      | some y =>
        rw [hg] at ha
        simp only [OptRel] at ha
        cases h1 : allSome f r with
        | none =>
          rw [h1] at hr
          cases h2 : allSome g r with
          | none => simp [OptRel]
          | some ys => rw [h2] at hr; simp [OptRel] at hr
        | some xs =>
          rw [h1] at hr
          cases h2 : allSome g r with
          | none => rw [h2] at hr; simp [OptRel] at hr
          | some ys =>
            rw [h2] at hr
            simp only [OptRel] at hr ⊢
            exact RelL.cons ha hr

theorem allSome_congr_relL {δ : Type} {R : α → β → Prop} {f : α → Option δ} {g : β → Option δ} {l : List α} {l' : List β}
    (hr : RelL R l l') (h : ∀ x y, R x y → f x = g y) : allSome f l = allSome g l' := by
  induction hr with
  | nil => rfl
  | cons hab _ ih => simp only [allSome, h _ _ hab, ih]

theorem RelL.all_eq {R : α → β → Prop} {p : α → Bool} {q : β → Bool} {l : List α} {l' : List β}
    (hr : RelL R l l') (h : ∀ x y, R x y → p x = q y) : l.all p = l'.all q := by
  induction hr with
  | nil => rfl
  | cons hab _ ih => simp only [List.all_cons, h _ _ hab, ih]

end helpers

theorem lookup_map_of_nodup {α : Type} (F : Step → α) {steps : List Step} (hn : (steps.map Step.name).Nodup)
    {st : Step} (hst : st ∈ steps) : lookup st.name (steps.map fun s => (s.name, F s)) = some (F st) := by
  apply lookup_of_mem
  · simpa [List.map_map, Function.comp_def] using hn
  · exact List.mem_map.mpr ⟨st, hst, rfl⟩

/-- the rule checks of a stage pass exactly when every item's rules hold -/
theorem okPart_itemRules (c : Nat) (table : List (Str × Link)) (items : List Item) :
    okPart (itemRules c table items) = if rulesHold table items then some () else none := by
  induction items with
  | nil => simp [itemRules, rulesHold, okPart]
  | cons it rest ih =>
    simp only [itemRules, rulesHold, List.all_cons]
    split
    · rename_i h
      simp only [h, Out.isOk, Bool.true_and]
      exact ih
    · rename_i c' h; simp [h, okPart, Out.isOk]
    · rename_i s h; simp [h, okPart, Out.isOk]

theorem rulesHold_congr {t t' : List (Str × Link)} (h : ∀ n, lookup n t = lookup n t') (items : List Item) :
    rulesHold t items = rulesHold t' items := by
  have := itemRules_congr h 0 items
  have e1 := okPart_itemRules 0 t items
  have e2 := okPart_itemRules 0 t' items
  rw [this, e2] at e1
  cases h1 : rulesHold t items <;> cases h2 : rulesHold t' items <;> simp [h1, h2] at e1 <;> rfl

/-- the inspection stage: every command runs and exits with 0; the table of their links -/
theorem okPart_runInspections (env : Env K) (path : List Str) (insps : List Insp) (acc : List (Str × Link))
    (ev : List Event) :
    okPart (runInspections env path insps acc ev).1 = (allSome (inspected env path) insps).map (extend acc) := by
  induction insps generalizing acc ev with
  | nil => simp [runInspections, allSome, extend, okPart]
  | cons i rest ih =>
    simp only [runInspections, allSome, inspected]
    cases hr : env.run path i with
    | none => simp [okPart]
    | some r =>
      obtain ⟨status, l⟩ := r
      simp only
      by_cases h0 : status = 0
      · subst h0
        simp only [ne_eq, not_true_eq_false, if_false, if_true]
        rw [ih]
        cases allSome (inspected env path) rest <;> simp [extend]
      · simp only [ne_eq, h0, not_false_eq_true, if_true, if_false, okPart]
        simp

end InToto.VerifySpec

namespace InToto.VerifySpec
open InToto InToto.Verify InToto.Rules InToto.Threshold

variable {K : Type}

/-! ### stages 4 and 5 under `idO` -/

theorem goodOf_idO (env : Env K) (L : Layout K) (dir : Dir K) {steps : List Step} (hn : (steps.map Step.name).Nodup)
    {st : Step} (hst : st ∈ steps) :
    goodOf env idO L (steps.map fun s => (s.name, loadedOf dir s.name)) st =
      (loadedOf dir st.name).filter (counts env L st) := by
  unfold goodOf
  rw [lookup_map_of_nodup (fun s => loadedOf dir s.name) hn hst]
  simp only [Option.getD_some]
  change goodLinks env idO L st (loadedOf dir st.name) [] = _
  rw [goodLinks_eq_filter env idO L st _ [] (by simpa using loadedOf_nodup dir st.name),
    countedB_eq_counts env idO idO_valid]
  simp

theorem evidence_filter_perm (env : Env K) (L : Layout K) (dir : Dir K) (st : Step) :
    ((loadedOf dir st.name).filter (counts env L st)).Perm ((evidence dir st.name).filter (counts env L st)) :=
  (loadedOf_perm dir st.name).filter _

theorem filter_keysNodup {α : Type} {l : List (Str × α)} (p : Str × α → Bool) (h : KeysNodup l) : KeysNodup (l.filter p) :=
  List.Nodup.sublist ((List.filter_sublist).map Prod.fst) h

theorem standsFor_key (sub : List Str → Block K → List K → Dir K → Str → Option Link) (path : List Str) (L : Layout K)
    (dir : Dir K) (stepName : Str) (e : Str × Block K) (r : Str × Link)
    (h : standsFor sub path L dir stepName e = some r) : r.1 = e.1 := by
  unfold standsFor at h
  split at h
  · cases h; rfl
  · split at h
    · cases h
    · simp only [Option.map_eq_some_iff] at h
      obtain ⟨l, _, rfl⟩ := h
      rfl

theorem standsFor_eq_subLinkC (sub : List Str → Block K → List K → Dir K → Str → Option Link) (path : List Str)
    (L : Layout K) (dir : Dir K) (stepName : Str) :
    subLinkC sub path L dir stepName = standsFor sub path L dir stepName := by
  funext e
  unfold subLinkC standsFor subName
  rfl

theorem allSome_length {α β : Type} {f : α → Option β} {l : List α} {r : List β} (h : allSome f l = some r) :
    r.length = l.length := by
  induction l generalizing r with
  | nil => simp only [allSome] at h; cases h; rfl
  | cons a rest ih =>
    rw [allSome_cons] at h
    cases ha : f a with
    | none => rw [ha] at h; cases h
    | some b =>
      rw [ha] at h
      cases hr : allSome f rest with
      | none => rw [hr] at h; cases h
      | some bs =>
        rw [hr] at h
        simp only [Option.bind_some, Option.map_some, Option.some.injEq] at h
        subst h
        simp [ih hr]

theorem allSome_none_of_mem {α β : Type} {f : α → Option β} {l : List α} {a : α} (ha : a ∈ l) (h : f a = none) :
    allSome f l = none := by
  cases hs : allSome f l with
  | none => rfl
  | some r =>
    have := (allSome_eq_some hs).2 a ha
    rw [h] at this; cases this

/-- how the links the model holds for a step relate to those of the specification -/
def StepRel (x : Str × List (Str × Link)) (y : Step × List (Str × Link)) : Prop :=
  x.1 = y.1.name ∧ x.2.Perm y.2 ∧ KeysNodup x.2 ∧ y.1.threshold ≤ x.2.length

theorem step5_rel (sub : List Str → Block K → List K → Dir K → Str → Option Link) (env : Env K) (path : List Str)
    (L : Layout K) (dir : Dir K) (st : Step)
    (hthr : ¬ ((loadedOf dir st.name).filter (counts env L st)).length < st.threshold) :
    OptRel StepRel
      (stepLinksC sub idO path L dir (st.name, (loadedOf dir st.name).filter (counts env L st)))
      (stepLinks sub env path L dir st) := by
  have hp := evidence_filter_perm env L dir st
  have hlen : ¬ ((evidence dir st.name).filter (counts env L st)).length < st.threshold := by
    rw [← hp.length_eq]; exact hthr
  unfold stepLinksC stepLinks
  simp only [hlen, if_false, standsFor_eq_subLinkC]
  change OptRel StepRel
    ((allSome (standsFor sub path L dir st.name) ((loadedOf dir st.name).filter (counts env L st))).map fun ls => (st.name, extend [] ls))
    ((allSome (standsFor sub path L dir st.name) ((evidence dir st.name).filter (counts env L st))).map fun ls => (st, ls))
  have hrel := allSome_perm (f := standsFor sub path L dir st.name) hp
  cases h1 : allSome (standsFor sub path L dir st.name) ((loadedOf dir st.name).filter (counts env L st)) with
  | none =>
    rw [h1] at hrel
    cases h2 : allSome (standsFor sub path L dir st.name) ((evidence dir st.name).filter (counts env L st)) with
    | none => simp [OptRel]
    | some r' => rw [h2] at hrel; simp [OptRel] at hrel
  | some r =>
    rw [h1] at hrel
    cases h2 : allSome (standsFor sub path L dir st.name) ((evidence dir st.name).filter (counts env L st)) with
    | none => rw [h2] at hrel; simp [OptRel] at hrel
    | some r' =>
      rw [h2] at hrel
      simp only [OptRel] at hrel
      have hk : KeysNodup r := by
        unfold KeysNodup
        rw [allSome_keys (ka := Prod.fst) (fun a x h => standsFor_key sub path L dir st.name a x h) h1]
        exact filter_keysNodup _ (loadedOf_nodup dir st.name)
      simp only [Option.map_some, OptRel, StepRel, extend_nil hk]
      refine ⟨trivial, hrel, hk, ?_⟩
      rw [allSome_length h1]
      omega

end InToto.VerifySpec

namespace InToto.VerifySpec
open InToto InToto.Verify InToto.Rules InToto.Threshold

variable {K : Type}

/-! ### clause 6: agreement -/

theorem agreeSpec_ok_or_err (links : List (Str × List (Str × Link))) (steps : List Step) :
    agreeSpec links steps = .ok () ∨ agreeSpec links steps = .err 7 := by
  induction steps with
  | nil => exact Or.inl rfl
  | cons st rest ih =>
    simp only [agreeSpec]
    split
    · exact ih
    · split
      · exact Or.inr rfl
      · split
        · exact Or.inr rfl
        · split
          · exact Or.inr rfl
          · split
            · exact ih
            · exact Or.inr rfl

def pairsAgree (per : List (Str × Link)) : Bool := per.all fun e => per.all fun e' => agree e.2 e'.2

theorem agreeSpec_ok_iff (links : List (Str × List (Str × Link))) (steps : List Step) :
    agreeSpec links steps = .ok () ↔
      ∀ st ∈ steps, st.threshold ≤ 1 ∨ ∃ per, lookup st.name links = some per ∧ ¬ per.length < st.threshold ∧
        per.isEmpty = false ∧ pairsAgree per = true := by
  induction steps with
  | nil => simp [agreeSpec]
  | cons st rest ih =>
    simp only [agreeSpec, List.mem_cons, forall_eq_or_imp]
    by_cases ht : st.threshold ≤ 1
    · simp only [ht, if_true, true_or, true_and]; exact ih
    · simp only [ht, if_false, false_or]
      cases hl : lookup st.name links with
      | none => simp
      | some per =>
        simp only [Option.some.injEq, exists_eq_left']
        by_cases h1 : per.length < st.threshold
        · simp [h1]
        · simp only [h1, if_false, not_false_eq_true, true_and]
          by_cases h2 : per.isEmpty = true
          · simp [h2]
          · have h2' : per.isEmpty = false := by simpa using h2
            simp only [h2', Bool.false_eq_true, if_false, true_and]
            by_cases h3 : pairsAgree per = true
            · have : (per.all fun e => per.all fun e' => agree e.2 e'.2) = true := h3
              simp only [this, if_true, h3, true_and]; exact ih
            · have : (per.all fun e => per.all fun e' => agree e.2 e'.2) = false := by
                cases hh : (per.all fun e => per.all fun e' => agree e.2 e'.2) with
                | false => rfl
                | true => exact absurd hh h3
              simp only [this, Bool.false_eq_true, if_false]
              constructor
              · intro h; cases h
              · intro h; exact absurd h.1 h3

theorem pairsAgree_perm {a b : List (Str × Link)} (hp : a.Perm b) : pairsAgree a = pairsAgree b := by
  unfold pairsAgree
  rw [Bool.eq_iff_iff]
  simp only [List.all_eq_true]
  constructor
  · intro h e he e' he'
    exact h e (hp.mem_iff.mpr he) e' (hp.mem_iff.mpr he')
  · intro h e he e' he'
    exact h e (hp.mem_iff.mp he) e' (hp.mem_iff.mp he')

section relL
variable {α β : Type} {R : α → β → Prop}

theorem RelL.exists_left {l : List α} {l' : List β} (h : RelL R l l') {y : β} (hy : y ∈ l') : ∃ x ∈ l, R x y := by
  induction h with
  | nil => simp at hy
  | cons hab _ ih =>
    rcases List.mem_cons.mp hy with rfl | hy
    · exact ⟨_, by simp, hab⟩
    · obtain ⟨x, hx, hr⟩ := ih hy
      exact ⟨x, List.mem_cons_of_mem _ hx, hr⟩

theorem RelL.exists_right {l : List α} {l' : List β} (h : RelL R l l') {x : α} (hx : x ∈ l) : ∃ y ∈ l', R x y := by
  induction h with
  | nil => simp at hx
  | cons hab _ ih =>
    rcases List.mem_cons.mp hx with rfl | hx
    · exact ⟨_, by simp, hab⟩
    · obtain ⟨y, hy, hr⟩ := ih hx
      exact ⟨y, List.mem_cons_of_mem _ hy, hr⟩

theorem RelL.map_eq {γ : Type} {f : α → γ} {g : β → γ} {l : List α} {l' : List β} (h : RelL R l l')
    (hfg : ∀ x y, R x y → f x = g y) : l.map f = l'.map g := by
  induction h with
  | nil => rfl
  | cons hab _ ih => simp only [List.map_cons, hfg _ _ hab, ih]

end relL

/-- the model's agreement stage on its table = clause 6 on the specification's list -/
theorem agreement_eq {steps : List Step} {linksM : List (Str × List (Str × Link))}
    {linksS : List (Step × List (Str × Link))} (hr : RelL StepRel linksM linksS)
    (hS : linksS.map Prod.fst = steps) (hn : (steps.map Step.name).Nodup) :
    okPart (agreeSpec linksM steps) = if linksS.all agreeing then some () else none := by
  have hkeys : linksM.map Prod.fst = steps.map Step.name := by
    rw [← hS, List.map_map]
    exact hr.map_eq (fun x y h => h.1)
  have hnM : KeysNodup linksM := by unfold KeysNodup; rw [hkeys]; exact hn
  have hiff : agreeSpec linksM steps = .ok () ↔ linksS.all agreeing = true := by
    rw [agreeSpec_ok_iff, List.all_eq_true]
    constructor
    · intro h y hy
      have hst : y.1 ∈ steps := by rw [← hS]; exact List.mem_map.mpr ⟨y, hy, rfl⟩
      obtain ⟨x, hx, hxy⟩ := hr.exists_left hy
      unfold agreeing
      rcases h y.1 hst with ht | ⟨per, hl, _, _, hp⟩
      · simp [ht]
      · have : lookup y.1.name linksM = some x.2 := by
          rw [← hxy.1]; exact lookup_of_mem hnM (by simpa using hx)
        rw [this] at hl
        cases hl
        have := pairsAgree_perm hxy.2.1
        unfold pairsAgree at this hp
        rw [← this, hp]; simp
    · intro h st hst
      rw [← hS] at hst
      obtain ⟨y, hy, rfl⟩ := List.mem_map.mp hst
      obtain ⟨x, hx, hxy⟩ := hr.exists_left hy
      have hag := h y hy
      unfold agreeing at hag
      by_cases ht : y.1.threshold ≤ 1
      · exact Or.inl ht
      · refine Or.inr ⟨x.2, ?_, ?_, ?_, ?_⟩
        · rw [← hxy.1]; exact lookup_of_mem hnM (by simpa using hx)
        · have := hxy.2.2.2; omega
        · have := hxy.2.2.2
          cases hx2 : x.2 with
          | nil => rw [hx2] at this; simp at this; omega
          | cons _ _ => rfl
        · simp only [ht, decide_false, Bool.false_or] at hag
          have := pairsAgree_perm hxy.2.1
          unfold pairsAgree at this ⊢
          rw [this]; exact hag
  rcases agreeSpec_ok_or_err linksM steps with h | h
  · rw [h, hiff.mp h]; rfl
  · have : linksS.all agreeing = false := by
      cases hh : linksS.all agreeing with
      | false => rfl
      | true => rw [hiff.mpr hh] at h; cases h
    rw [h, this]; rfl

/-- clause 7: representatives -/
theorem representatives_eq {linksM : List (Str × List (Str × Link))} {linksS : List (Step × List (Str × Link))}
    (hr : RelL StepRel linksM linksS) : allSome redOne linksM = allSome representative linksS := by
  apply allSome_congr_relL hr
  intro x y h
  unfold redOne representative
  rw [minEntry_perm h.2.1 h.2.2.1, h.1]

end InToto.VerifySpec

namespace InToto.VerifySpec
open InToto InToto.Verify InToto.Rules InToto.Threshold

variable {K : Type}

/-! ### the table after the inspections -/

theorem table_lookup (reps insp : List (Str × Link)) (n : Str) :
    lookup n (extend reps (extend [] insp)) = lookup n (insp.reverse ++ reps) := by
  have hX : KeysNodup (extend [] insp) := keysNodup_extend insp (by simp [KeysNodup])
  have hXr : KeysNodup (extend [] insp).reverse := by
    unfold KeysNodup
    exact ((List.reverse_perm (extend [] insp)).map Prod.fst).nodup_iff.mpr hX
  have h1 : lookup n (extend [] insp).reverse = lookup n (extend [] insp) :=
    lookup_perm (List.reverse_perm _) hXr n
  have h2 : lookup n (extend [] insp) = lookup n insp.reverse := by
    rw [lookup_extend]
    cases lookup n insp.reverse <;> simp [lookup]
  rw [lookup_extend, lookup_append, h1, h2]

/-! ### one level of the pipeline is one level of the specification -/

theorem stepLoadable_of_parts {dir : Dir K} {st : Step}
    (h1 : (globSafe st.name && stepPatternOk st.name && readable dir st.name) = true)
    (h2 : ¬ (loadedOf dir st.name).length < st.threshold) : stepLoadable dir st = true := by
  unfold stepLoadable
  simp only [h1, Bool.true_and, h2, decide_false, Bool.not_false]

theorem verifyOptC_idO_eq (sub : List Str → Block K → List K → Dir K → Str → Option Link) (env : Env K)
    (path : List Str) (b : Block K) (keys : List K) (dir : Dir K) (name : Str) :
    verifyOptC sub env idO path b keys dir name = acceptsStep sub env path b keys dir name := by
  unfold verifyOptC acceptsStep
  rw [okPart_verifyBlockK_all env idO idO_valid]
  cases hb : b.signed with
  | link l => cases ownersSigned env b keys <;> simp
  | layout L =>
    by_cases ho : ownersSigned env b keys = true
    case neg =>
      have ho' : ownersSigned env b keys = false := by simpa using ho
      simp [ho']
    simp only [ho, if_true, Option.bind_some, Bool.not_true, Bool.false_eq_true, if_false]
    by_cases hexp : L.expires < env.now path
    · simp [hexp]
    simp only [hexp, if_false]
    rw [loadLinks_eq]
    by_cases hd : distinct (L.steps.map Step.name) = true
    case neg =>
      -- a step name twice: stage 4 refuses
      have hd' : distinct (L.steps.map Step.name) = false := by simpa using hd
      simp only [hd', Bool.not_false, if_true]
      cases hl : L.steps.all (stepLoadable dir) with
      | false => simp
      | true =>
        simp only [if_true, Option.bind_some]
        rw [verifyThresholds_eq]
        have : thrCond env idO L (extend [] (L.steps.map fun st => (st.name, loadedOf dir st.name))) L.steps [] = false := by
          simp [thrCond, hd']
        simp [this]
    have hn : (L.steps.map Step.name).Nodup := (distinct_iff _).mp hd
    simp only [hd, Bool.not_true, Bool.false_eq_true, if_false]
    by_cases hN : (L.steps.all fun st => globSafe st.name && stepPatternOk st.name && readable dir st.name) = true
    case neg =>
      have hN' : (L.steps.all fun st => globSafe st.name && stepPatternOk st.name && readable dir st.name) = false := by
        simpa using hN
      simp only [hN', Bool.not_false, if_true]
      have : L.steps.all (stepLoadable dir) = false := by
        cases hh : L.steps.all (stepLoadable dir) with
        | false => rfl
        | true =>
          exfalso
          apply hN
          rw [List.all_eq_true] at hh ⊢
          intro st hst
          have := hh st hst
          unfold stepLoadable at this
          simp only [Bool.and_eq_true] at this
          simp only [Bool.and_eq_true]
          exact this.1
      simp [this]
    simp only [hN, Bool.not_true, Bool.false_eq_true, if_false]
    have hNst : ∀ st ∈ L.steps, (globSafe st.name && stepPatternOk st.name && readable dir st.name) = true :=
      List.all_eq_true.mp hN
    -- the evidence that counts, per step
    have hevlen : ∀ st, ((loadedOf dir st.name).filter (counts env L st)).length =
        ((evidence dir st.name).filter (counts env L st)).length := fun st => (evidence_filter_perm env L dir st).length_eq
    by_cases hthr : ∀ st ∈ L.steps, ¬ ((loadedOf dir st.name).filter (counts env L st)).length < st.threshold
    case neg =>
      -- a step without enough counted evidence
      have ⟨st, hst, hlt⟩ : ∃ st ∈ L.steps, ((loadedOf dir st.name).filter (counts env L st)).length < st.threshold := by
        apply Classical.byContradiction
        intro hne
        apply hthr
        intro st hst hlt
        exact hne ⟨st, hst, hlt⟩
      have hspec : allSome (stepLinks sub env path L dir) L.steps = none := by
        apply allSome_none_of_mem hst
        unfold stepLinks
        simp only [← hevlen, hlt, if_true]
      rw [hspec]
      simp only [Option.bind_none]
      cases hl : L.steps.all (stepLoadable dir) with
      | false => simp
      | true =>
        simp only [if_true, Option.bind_some]
        rw [verifyThresholds_eq, extend_nil (by simpa [KeysNodup, List.map_map, Function.comp_def] using hn)]
        have : thrCond env idO L (L.steps.map fun st => (st.name, loadedOf dir st.name)) L.steps [] = false := by
          unfold thrCond
          have : (L.steps.all fun st => !decide ((goodOf env idO L (L.steps.map fun s => (s.name, loadedOf dir s.name)) st).length < st.threshold)) = false := by
            rw [Bool.eq_false_iff]
            intro hall
            have := List.all_eq_true.mp hall st hst
            rw [goodOf_idO env L dir hn hst] at this
            simp [hlt] at this
          simp [this]
        simp [this]
    -- every step is loadable
    have hload : L.steps.all (stepLoadable dir) = true := by
      rw [List.all_eq_true]
      intro st hst
      apply stepLoadable_of_parts (hNst st hst)
      have := hthr st hst
      have hle : ((loadedOf dir st.name).filter (counts env L st)).length ≤ (loadedOf dir st.name).length :=
        List.length_filter_le _ _
      omega
    simp only [hload, if_true, Option.bind_some]
    rw [extend_nil (by simpa [KeysNodup, List.map_map, Function.comp_def] using hn), verifyThresholds_eq]
    have hcond : thrCond env idO L (L.steps.map fun st => (st.name, loadedOf dir st.name)) L.steps [] = true := by
      unfold thrCond
      simp only [hd, Bool.and_true, Bool.and_eq_true, List.all_eq_true]
      refine ⟨?_, fun st _ => by simp [lookup]⟩
      intro st hst
      rw [goodOf_idO env L dir hn hst]
      simp [hthr st hst]
    simp only [hcond, if_true, Option.bind_some]
    rw [extend_nil (by simpa [KeysNodup, List.map_map, Function.comp_def] using hn)]
    -- stage 5
    change ((allSome (stepLinksC sub idO path L dir)
        (L.steps.map fun st => (st.name, goodOf env idO L (L.steps.map fun s => (s.name, loadedOf dir s.name)) st))).map (extend [])).bind _ = _
    rw [allSome_map]
    have hrel : OptRel (RelL StepRel)
        (allSome (fun st => stepLinksC sub idO path L dir
          (st.name, goodOf env idO L (L.steps.map fun s => (s.name, loadedOf dir s.name)) st)) L.steps)
        (allSome (stepLinks sub env path L dir) L.steps) := by
      apply allSome_relL
      intro st hst
      rw [goodOf_idO env L dir hn hst]
      exact step5_rel sub env path L dir st (hthr st hst)
    cases hM : allSome (fun st => stepLinksC sub idO path L dir
          (st.name, goodOf env idO L (L.steps.map fun s => (s.name, loadedOf dir s.name)) st)) L.steps with
    | none =>
      rw [hM] at hrel
      cases hS : allSome (stepLinks sub env path L dir) L.steps with
      | none => simp
      | some y => rw [hS] at hrel; simp [OptRel] at hrel
    | some linksM =>
      rw [hM] at hrel
      cases hS : allSome (stepLinks sub env path L dir) L.steps with
      | none => rw [hS] at hrel; simp [OptRel] at hrel
      | some linksS =>
        rw [hS] at hrel
        simp only [OptRel] at hrel
        -- the specification's list is aligned with the steps
        have hSfst : linksS.map Prod.fst = L.steps := by
          -- every result of `stepLinks st` carries `st`
          have hgen : ∀ (l : List Step) (r : List (Step × List (Str × Link))),
              allSome (stepLinks sub env path L dir) l = some r → r.map Prod.fst = l := by
            intro l
            induction l with
            | nil => intro r h; simp only [allSome] at h; cases h; rfl
            | cons a rest ih =>
              intro r h
              rw [allSome_cons] at h
              cases ha : stepLinks sub env path L dir a with
              | none => rw [ha] at h; cases h
              | some p =>
                rw [ha] at h
                cases hr : allSome (stepLinks sub env path L dir) rest with
                | none => rw [hr] at h; cases h
                | some ps =>
                  rw [hr] at h
                  simp only [Option.bind_some, Option.map_some, Option.some.injEq] at h
                  subst h
                  have hp1 : p.1 = a := by
                    unfold stepLinks at ha
                    simp only at ha
                    split at ha
                    · cases ha
                    · simp only [Option.map_eq_some_iff] at ha
                      obtain ⟨ls, _, rfl⟩ := ha
                      rfl
                  simp [hp1, ih ps hr]
          exact hgen _ _ hS
        have hMkeys : linksM.map Prod.fst = L.steps.map Step.name := by
          rw [← hSfst, List.map_map]
          exact hrel.map_eq (fun x y h => h.1)
        have hMn : KeysNodup linksM := by unfold KeysNodup; rw [hMkeys]; exact hn
        simp only [Option.map_some, Option.bind_some, extend_nil hMn]
        -- stages 7 - 12
        rw [checkAgreement_eq_spec idO idO_valid, agreement_eq hrel hSfst hn]
        by_cases hag : linksS.all agreeing = true
        case neg =>
          have : linksS.all agreeing = false := by simpa using hag
          simp [this]
        simp only [hag, if_true, Option.bind_some, Bool.not_true, Bool.false_eq_true, if_false]
        rw [reduceLinks_eq, representatives_eq hrel]
        cases hreps : allSome representative linksS with
        | none => simp
        | some reps =>
          simp only [Option.bind_some]
          rw [okPart_itemRules]
          by_cases hr9 : rulesHold reps (L.steps.map stepItem) = true
          case neg =>
            have : rulesHold reps (L.steps.map stepItem) = false := by simpa using hr9
            simp [this]
          simp only [hr9, if_true, Option.bind_some, Bool.not_true, Bool.false_eq_true, if_false]
          rw [okPart_runInspections]
          cases hins : allSome (inspected env path) L.inspect with
          | none => simp
          | some insp =>
            simp only [Option.map_some, Option.bind_some]
            rw [okPart_itemRules, rulesHold_congr (table_lookup reps insp), summary_congr (table_lookup reps insp)]
            by_cases hr11 : rulesHold (insp.reverse ++ reps) (L.inspect.map inspItem) = true
            · simp [hr11]
            · have : rulesHold (insp.reverse ++ reps) (L.inspect.map inspItem) = false := by simpa using hr11
              simp [this]

end InToto.VerifySpec

namespace InToto.VerifySpec
open InToto InToto.Verify InToto.Rules InToto.Threshold

variable {K : Type}

/-- **The pipeline computes the specification.**  For every environment, every valid family of
    iteration orders and every amount of fuel, the success part of `verify` - whether verification
    succeeds, and the summary link - is `accepts`. -/
theorem okPart_verify_eq_accepts (env : Env K) (ord : Ord) (hord : ord.Valid) :
    ∀ fuel path b keys dir name,
      okPart (verify env ord fuel path b keys dir name).1 = accepts env fuel path b keys dir name := by
  intro fuel
  induction fuel with
  | zero => intro path b keys dir name; rw [verify_zero]; rfl
  | succ f ih =>
    intro path b keys dir name
    rw [verify_order_independent env ord idO hord idO_valid, okPart_verify, verifyOpt_eq_C]
    have : (fun p b k d n => okPart (verify env idO f p b k d n).1) = accepts env f := by
      funext p b k d n
      rw [← verify_order_independent env ord idO hord idO_valid]
      exact ih p b k d n
    rw [this, verifyOptC_idO_eq]
    rfl

/-- what an accepting answer of one level of the specification says, clause by clause -/
structure Accepted (sub : List Str → Block K → List K → Dir K → Str → Option Link) (env : Env K) (path : List Str)
    (b : Block K) (keys : List K) (dir : Dir K) (name : Str) (out : Link) : Prop where
  clauses : ∃ (L : Layout K) (links : List (Step × List (Str × Link))) (reps insp : List (Str × Link)),
    b.signed = .layout L ∧
    ownersSigned env b keys = true ∧
    ¬ L.expires < env.now path ∧
    (L.steps.map Step.name).Nodup ∧
    (∀ st ∈ L.steps, globSafe st.name = true ∧ stepPatternOk st.name = true ∧ readable dir st.name = true) ∧
    allSome (stepLinks sub env path L dir) L.steps = some links ∧
    links.all agreeing = true ∧
    allSome representative links = some reps ∧
    rulesHold reps (L.steps.map stepItem) = true ∧
    allSome (inspected env path) L.inspect = some insp ∧
    rulesHold (insp.reverse ++ reps) (L.inspect.map inspItem) = true ∧
    summary L (insp.reverse ++ reps) name = .ok out

theorem acceptsStep_iff (sub : List Str → Block K → List K → Dir K → Str → Option Link) (env : Env K)
    (path : List Str) (b : Block K) (keys : List K) (dir : Dir K) (name : Str) (out : Link) :
    acceptsStep sub env path b keys dir name = some out ↔ Accepted sub env path b keys dir name out := by
  unfold acceptsStep
  constructor
  · intro h
    cases hb : b.signed with
    | link l => rw [hb] at h; cases h
    | layout L =>
      rw [hb] at h
      simp only at h
      by_cases ho : ownersSigned env b keys = true
      case neg => simp [ho] at h
      simp only [ho, Bool.not_true, Bool.false_eq_true, if_false] at h
      by_cases hexp : L.expires < env.now path
      · simp [hexp] at h
      simp only [hexp, if_false] at h
      by_cases hd : distinct (L.steps.map Step.name) = true
      case neg => simp [hd] at h
      simp only [hd, Bool.not_true, Bool.false_eq_true, if_false] at h
      by_cases hN : (L.steps.all fun st => globSafe st.name && stepPatternOk st.name && readable dir st.name) = true
      case neg => simp [hN] at h
      simp only [hN, Bool.not_true, Bool.false_eq_true, if_false] at h
      cases hl : allSome (stepLinks sub env path L dir) L.steps with
      | none => rw [hl] at h; simp at h
      | some links =>
        rw [hl] at h
        simp only [Option.bind_some] at h
        by_cases hag : links.all agreeing = true
        case neg => simp [hag] at h
        simp only [hag, Bool.not_true, Bool.false_eq_true, if_false] at h
        cases hr : allSome representative links with
        | none => rw [hr] at h; simp at h
        | some reps =>
          rw [hr] at h
          simp only [Option.bind_some] at h
          by_cases h9 : rulesHold reps (L.steps.map stepItem) = true
          case neg => simp [h9] at h
          simp only [h9, Bool.not_true, Bool.false_eq_true, if_false] at h
          cases hi : allSome (inspected env path) L.inspect with
          | none => rw [hi] at h; simp at h
          | some insp =>
            rw [hi] at h
            simp only [Option.bind_some] at h
            by_cases h11 : rulesHold (insp.reverse ++ reps) (L.inspect.map inspItem) = true
            case neg => simp [h11] at h
            simp only [h11, Bool.not_true, Bool.false_eq_true, if_false] at h
            refine ⟨⟨L, links, reps, insp, hb, ho, hexp, (distinct_iff _).mp hd, ?_, hl, hag, hr, h9, hi, h11, okPart_eq_some.mp h⟩⟩
            intro st hst
            have := List.all_eq_true.mp hN st hst
            simp only [Bool.and_eq_true] at this
            exact ⟨this.1.1, this.1.2, this.2⟩
  · intro ⟨L, links, reps, insp, hb, ho, hexp, hn, hN, hl, hag, hr, h9, hi, h11, hs⟩
    rw [hb]
    have hd : distinct (L.steps.map Step.name) = true := (distinct_iff _).mpr hn
    have hN' : (L.steps.all fun st => globSafe st.name && stepPatternOk st.name && readable dir st.name) = true := by
      rw [List.all_eq_true]
      intro st hst
      obtain ⟨a, b', c⟩ := hN st hst
      simp [a, b', c]
    simp only [ho, hexp, hd, hN', hl, hag, hr, h9, hi, h11, Bool.not_true, Bool.false_eq_true, if_false, Option.bind_some]
    exact okPart_eq_some.mpr hs

end InToto.VerifySpec
