import InTotoModel.Model.Md
/-
  The streamed digest is the digest of the whole: however the input is cut into `update` calls, the
  context holds the state after the complete blocks of the concatenation and its incomplete rest,
  and `finish` yields `Alg.hash` of the concatenation.  No assumption on the compression function or
  the padding; the block size must be positive.
-/
namespace InToto.Md
variable {S : Type}

theorem blocks_short (A : Alg S) (s : S) (d : Bytes) (h : d.length < A.block) : A.blocks s d = s := by
  rw [Alg.blocks, dif_neg]; omega

theorem blocks_zero (A : Alg S) (s : S) (d : Bytes) (h : A.block = 0) : A.blocks s d = s := by
  rw [Alg.blocks, dif_neg]; omega

/-- one complete block in front -/
theorem blocks_cons_block (A : Alg S) (s : S) (b d : Bytes) (hb : b.length = A.block) (hpos : 0 < A.block) :
    A.blocks s (b ++ d) = A.blocks (A.compress s b) d := by
  rw [Alg.blocks, dif_pos ⟨hpos, by simp [hb]⟩]
  have e1 : (b ++ d).take A.block = b := by rw [← hb]; simp
  have e2 : (b ++ d).drop A.block = d := by rw [← hb]; simp
  rw [e1, e2]

/-- a whole number of blocks in front -/
theorem blocks_append_full (A : Alg S) (hpos : 0 < A.block) (k : Nat) :
    ∀ (s : S) (d1 d2 : Bytes), d1.length = k * A.block → A.blocks s (d1 ++ d2) = A.blocks (A.blocks s d1) d2 := by
  induction k with
  | zero =>
    intro s d1 d2 h
    have : d1 = [] := List.eq_nil_of_length_eq_zero (by simpa using h)
    subst this
    rw [blocks_short A s [] (by simpa using hpos)]; rfl
  | succ k ih =>
    intro s d1 d2 h
    have hl : A.block ≤ d1.length := by rw [h, Nat.succ_mul]; omega
    have hsplit : d1 = d1.take A.block ++ d1.drop A.block := (List.take_append_drop _ _).symm
    have htl : (d1.take A.block).length = A.block := by simp [List.length_take]; omega
    have hdl : (d1.drop A.block).length = k * A.block := by
      simp only [List.length_drop, h, Nat.succ_mul]; omega
    rw [hsplit, List.append_assoc, blocks_cons_block A s _ _ htl hpos, ih _ _ _ hdl,
      blocks_cons_block A s _ _ htl hpos]

theorem take_len_add {α : Type} (l1 l2 : List α) (m n : Nat) (h : l1.length = m) :
    (l1 ++ l2).take (m + n) = l1 ++ l2.take n := by
  subst h
  induction l1 with
  | nil => simp
  | cons a l ih => simp only [List.cons_append, List.length_cons, Nat.add_right_comm _ 1 n, List.take_succ_cons, ih]

theorem drop_len_add {α : Type} (l1 l2 : List α) (m n : Nat) (h : l1.length = m) :
    (l1 ++ l2).drop (m + n) = l2.drop n := by
  subst h
  induction l1 with
  | nil => simp
  | cons a l ih => simp only [List.cons_append, List.length_cons, Nat.add_right_comm _ 1 n, List.drop_succ_cons, ih]

/-- `c` is the context after the bytes `D` -/
structure After (A : Alg S) (c : Ctx S) (D : Bytes) : Prop where
  len : c.len = D.length
  st : c.st = A.blocks A.init (D.take (D.length / A.block * A.block))
  pending : c.pending = D.drop (D.length / A.block * A.block)

theorem after_start (A : Alg S) : After A A.start [] := by
  constructor
  · rfl
  · simp only [Alg.start, List.length_nil, Nat.zero_div, Nat.zero_mul, List.take_nil]
    by_cases h : A.block = 0
    · rw [blocks_zero A _ _ h]
    · rw [blocks_short A _ _ (by simp; omega)]
  · simp [Alg.start]

theorem div_mul_le' (n b : Nat) : n / b * b ≤ n := Nat.div_mul_le_self n b

theorem after_update (A : Alg S) (hpos : 0 < A.block) {c : Ctx S} {D : Bytes} (h : After A c D) (x : Bytes) :
    After A (A.update c x) (D ++ x) := by
  obtain ⟨hlen, hst, hpend⟩ := h
  -- n = complete part of D, n' = complete part of pending ++ x
  have hn : D.length / A.block * A.block ≤ D.length := div_mul_le' _ _
  have hall : (c.pending ++ x).length = D.length - D.length / A.block * A.block + x.length := by
    rw [hpend]; simp [List.length_drop]
  -- the complete part of D ++ x
  have hsum : (D ++ x).length / A.block * A.block =
      D.length / A.block * A.block + (c.pending ++ x).length / A.block * A.block := by
    rw [hall, List.length_append]
    have e : D.length + x.length =
        D.length / A.block * A.block + (D.length - D.length / A.block * A.block + x.length) := by omega
    rw [e, Nat.mul_comm (D.length / A.block) A.block, Nat.mul_add_div hpos, Nat.add_mul, Nat.mul_comm A.block]
  have hn' : (c.pending ++ x).length / A.block * A.block ≤ (c.pending ++ x).length := div_mul_le' _ _
  have happ : D ++ x = D.take (D.length / A.block * A.block) ++ (c.pending ++ x) := by
    rw [hpend, ← List.append_assoc, List.take_append_drop]
  have htl : (D.take (D.length / A.block * A.block)).length = D.length / A.block * A.block := by
    rw [List.length_take]; omega
  constructor
  · simp [Alg.update, hlen]
  · -- state
    show A.blocks c.st ((c.pending ++ x).take ((c.pending ++ x).length / A.block * A.block)) = _
    rw [hst, hsum, ← blocks_append_full A hpos (D.length / A.block) _ _ _ htl]
    congr 1
    conv => rhs; rw [happ]
    exact (take_len_add _ _ _ _ htl).symm
  · show (c.pending ++ x).drop ((c.pending ++ x).length / A.block * A.block) = _
    rw [hsum]
    conv => rhs; rw [happ]
    exact (drop_len_add _ _ _ _ htl).symm

theorem finish_after (A : Alg S) (hpos : 0 < A.block) {c : Ctx S} {D : Bytes} (h : After A c D) :
    A.finish c = A.hash D := by
  obtain ⟨hlen, hst, hpend⟩ := h
  unfold Alg.finish Alg.hash
  rw [hst, hpend, hlen,
    ← blocks_append_full A hpos (D.length / A.block) _ _ _ (by rw [List.length_take]; exact Nat.min_eq_left (div_mul_le' _ _)),
    ← List.append_assoc, List.take_append_drop]

/-- any sequence of `update` calls -/
theorem after_updates (A : Alg S) (hpos : 0 < A.block) (xs : List Bytes) {c : Ctx S} {D : Bytes} (h : After A c D) :
    After A (xs.foldl A.update c) (D ++ xs.flatten) := by
  induction xs generalizing c D with
  | nil => simpa using h
  | cons x xs ih =>
    simp only [List.foldl_cons, List.flatten_cons, ← List.append_assoc]
    exact ih (after_update A hpos h x)

/-- **Streaming = one shot**: feed the chunks one by one, in whatever sizes, and finish. -/
theorem finish_updates (A : Alg S) (hpos : 0 < A.block) (xs : List Bytes) :
    A.finish (xs.foldl A.update A.start) = A.hash xs.flatten := by
  simpa using finish_after A hpos (after_updates A hpos xs (after_start A))

/-! ### the read loop -/

/-- the chunks consumed by the loop: up to the first empty read or error -/
def consumed : List ReadRes → Option (List Bytes)
  | [] => some []
  | .error :: _ => none
  | .data b :: rest => if b.isEmpty then some [] else (consumed rest).map (b :: ·)

theorem readLoop_eq (A : Alg S) (reads : List ReadRes) (size : Nat) (c : Ctx S) :
    readLoop A reads size c = (consumed reads).map fun xs => (size + xs.flatten.length, xs.foldl A.update c) := by
  induction reads generalizing size c with
  | nil => simp [readLoop, consumed]
  | cons r rest ih =>
    cases r with
    | error => simp [readLoop, consumed]
    | data b =>
      by_cases hb : b.isEmpty
      · simp [readLoop, consumed, hb]
      · simp only [readLoop, consumed, hb, Bool.false_eq_true, if_false, ih, Option.map_map]
        cases consumed rest with
        | none => rfl
        | some xs => simp [Nat.add_assoc]

/-- `calculate_hashes` for one algorithm: the size and the digest of everything read before the end
    of input, for every way the reader cuts it; `none` exactly when a read fails first. -/
theorem calcHash_eq (A : Alg S) (hpos : 0 < A.block) (reads : List ReadRes) :
    calcHash A reads = (consumed reads).map fun xs => (xs.flatten.length, A.hash xs.flatten) := by
  unfold calcHash
  rw [readLoop_eq]
  cases consumed reads with
  | none => rfl
  | some xs => simp [finish_updates A hpos xs]

end InToto.Md
