import InTotoModel.Model.AttestCodec
/-
  The externally modelled member types of the attestation codec, as "decode and write again":
  artifact maps (`Model/Codec.lean`), commands and byproducts (`Model/Wire.lean`), the predicate
  version strings (`Generated.Schema`), SLSA timestamps (`Model/Time.lean`).
-/
namespace InToto.AttestCodec
open InToto InToto.Wire InToto.Attest

def sArtifacts : Str := "artifacts".toList
def sCommand : Str := "command".toList
def sByproducts : Str := "byproducts".toList
def sTime : Str := "time".toList

def normPredicateVer : JV → Option JV
  | .str s => if (predicateVerOf s).isSome then some (.str s) else none
  | _ => none

def normTime : JV → Option JV
  | .str s => (Time.normTimeStamp s).map .str
  | _ => none

def stdNorm (n : Str) (j : JV) : Option JV :=
  if n = sArtifacts then (artsOfJson j).map artsToJson
  else if n = sCommand then (commandOfJson j).map commandToJson
  else if n = sByproducts then (byProductsOfJson j).map byProductsToJson
  else if n = sPredicateVer then normPredicateVer j
  else if n = sTime then normTime j
  else none

def stdExt : Ext where
  norm := stdNorm

theorem stdNorm_artifacts (j : JV) : stdNorm sArtifacts j = (artsOfJson j).map artsToJson := by
  simp only [stdNorm, if_true]

theorem stdNorm_command (j : JV) : stdNorm sCommand j = (commandOfJson j).map commandToJson := by
  simp only [stdNorm, show sCommand ≠ sArtifacts from by decide, if_false, if_true]

theorem stdNorm_byproducts (j : JV) : stdNorm sByproducts j = (byProductsOfJson j).map byProductsToJson := by
  simp only [stdNorm, show sByproducts ≠ sArtifacts from by decide, show sByproducts ≠ sCommand from by decide, if_false, if_true]

theorem stdNorm_time (j : JV) : stdNorm sTime j = normTime j := by
  simp only [stdNorm, show sTime ≠ sArtifacts from by decide, show sTime ≠ sCommand from by decide,
    show sTime ≠ sByproducts from by decide, show sTime ≠ sPredicateVer from by decide, if_false, if_true]

end InToto.AttestCodec
