import InTotoModel.Model.AttestCodec
/-
  The externally modelled member types of the attestation codec, as "decode and write again":
  artifact maps (`Model/Codec.lean`), commands and byproducts (`Model/Wire.lean`), the predicate
  version strings (`Generated.Schema`), SLSA timestamps (`Model/Time.lean`).
-/
namespace InToto.AttestCodec
open InToto InToto.Wire InToto.Attest

def stdExt : Ext where
  norm := fun n j =>
    if n = "artifacts".toList then (artsOfJson j).map artsToJson
    else if n = "command".toList then (commandOfJson j).map commandToJson
    else if n = "byproducts".toList then (byProductsOfJson j).map byProductsToJson
    else if n = sPredicateVer then
      match j with
      | .str s => if (predicateVerOf s).isSome then some (.str s) else none
      | _ => none
    else if n = "time".toList then
      match j with
      | .str s => (Time.normTimeStamp s).map .str
      | _ => none
    else none

end InToto.AttestCodec
