import InTotoModel.Model.Wire
import InTotoModel.Model.KeyId
import InTotoModel.Model.Utf8
import InTotoModel.Model.Time
/-
  Wire codecs of whole documents: link, step, inspection, layout, signature, signed block
  (value ↔ JSON value), mirroring the serde derives on the shim structs

    `Link` (src/models/link/mod.rs), `Step` (layout/step.rs), `Inspection` (layout/inspection.rs),
    `Layout` (layout/mod.rs) with `Layout::try_into`, `Signature` (crypto.rs),
    `Metablock` + untagged `MetadataWrapper` (models/metadata.rs)

  and the field types `VirtualTargetPath` (any string), `TargetDescription`
  (`HashMap<HashAlgorithm, HashValue>`: only the unit variants `sha256` / `sha512` can be map keys,
  values lower-case hex), `KeyId` (a string of exactly 64 bytes), `u32`, `Command`, `ByProducts`.

  serde-derive behaviour relied on (see also Model/Wire.lean): members are read by name, unknown
  members are ignored, a missing non-`Option` member is an error, the `_type` member must be a
  string; `Link` and `Layout` are rebuilt with the constant tag, `Step` and `Inspection` keep whatever string was read, a collection fails as a whole when one element fails.

  What is not modelled here is a parameter (`DocEnv`): reading and writing one public key, its
  intrinsic id (C12), and the RFC 3339 reader / writer for `expires`; `DocEnv.withStdTime` plugs in
  the model of chrono's reader / writer (Model/Time.lean), which is what the driver runs.
-/
namespace InToto.Wire
open InToto InToto.Rules InToto.KeyId

/-- all-or-nothing map over a collection -/
def allOpt {α β : Type} (f : α → Option β) : List α → Option (List β)
  | [] => some []
  | a :: r =>
    match f a with
    | none => none
    | some b =>
      match allOpt f r with
      | none => none
      | some bs => some (b :: bs)

/-- a required member -/
def req {α : Type} (k : Str) (kvs : List (Str × JV)) (dec : JV → Option α) : Option α :=
  (getField k kvs).bind dec

/-! ### member names and constants -/

def kType : Str := "_type".toList
def kName : Str := "name".toList
def kMaterials : Str := "materials".toList
def kProducts : Str := "products".toList
def kEnvironment : Str := "environment".toList
def kByproducts : Str := "byproducts".toList
def kCommand : Str := "command".toList
def kThreshold : Str := "threshold".toList
def kExpMaterials : Str := "expected_materials".toList
def kExpProducts : Str := "expected_products".toList
def kPubkeys : Str := "pubkeys".toList
def kExpCommand : Str := "expected_command".toList
def kRun : Str := "run".toList
def kExpires : Str := "expires".toList
def kReadme : Str := "readme".toList
def kKeys : Str := "keys".toList
def kSteps : Str := "steps".toList
def kInspect : Str := "inspect".toList
def kKeyid : Str := "keyid".toList
def kSig : Str := "sig".toList
def kSignatures : Str := "signatures".toList
def kSigned : Str := "signed".toList
def sLink : Str := "link".toList
def sStep : Str := "step".toList
def sInspection : Str := "inspection".toList
def sLayout : Str := "layout".toList
def sSha256 : Str := "sha256".toList
def sSha512 : Str := "sha512".toList

/-! ### artifacts -/

def algOk (a : Str) : Bool := a == sSha256 || a == sSha512

def digestEntryOfJson (p : Str × JV) : Option (Str × Bytes) :=
  if algOk p.1 then
    match p.2 with
    | .str s => (hexDecode s).map fun b => (p.1, b)
    | _ => none
  else none

def digestToJson (d : Digest) : JV := .obj (d.map fun p => (p.1, .str (hexEncode p.2)))

def digestOfJson : JV → Option Digest
  | .obj kvs => allOpt digestEntryOfJson kvs
  | _ => none

def artsToJson (a : Artifacts) : JV := .obj (a.map fun p => (p.1, digestToJson p.2))

def artsOfJson : JV → Option Artifacts
  | .obj kvs => allOpt (fun p => (digestOfJson p.2).map fun d => (p.1, d)) kvs
  | _ => none

def strMapToJson (m : List (Str × Str)) : JV := .obj (m.map fun p => (p.1, .str p.2))

def strMapOfJson : JV → Option (List (Str × Str))
  | .obj kvs => allOpt (fun p => match p.2 with | .str s => some (p.1, s) | _ => none) kvs
  | _ => none

/-! ### link -/

structure LinkW where
  name : Str
  materials : Artifacts
  products : Artifacts
  env : Option (List (Str × Str))
  byproducts : ByProducts
  command : List Str
  deriving DecidableEq, Repr

def envToJson : Option (List (Str × Str)) → JV
  | none => .null
  | some m => strMapToJson m

def linkToJson (l : LinkW) : JV :=
  .obj [(kType, .str sLink), (kName, .str l.name), (kMaterials, artsToJson l.materials),
        (kProducts, artsToJson l.products), (kEnvironment, envToJson l.env),
        (kByproducts, byProductsToJson l.byproducts), (kCommand, commandToJson l.command)]

def linkOfJson : JV → Option LinkW
  | .obj kvs =>
    (req kType kvs decStr).bind fun _ =>
    (req kName kvs decStr).bind fun name =>
    (req kMaterials kvs artsOfJson).bind fun materials =>
    (req kProducts kvs artsOfJson).bind fun products =>
    (optDecode strMapOfJson (getField kEnvironment kvs)).bind fun env =>
    (req kByproducts kvs byProductsOfJson).bind fun byproducts =>
    (req kCommand kvs commandOfJson).bind fun command =>
    some { name := name, materials := materials, products := products, env := env,
           byproducts := byproducts, command := command }
  | _ => none

/-! ### step and inspection -/

/-- `KeyId::from_str`: exactly 64 bytes of UTF-8 -/
def keyIdOk (s : Str) : Bool := (Utf8.encode s).length == 64

def keyIdOfJson : JV → Option Str
  | .str s => if keyIdOk s then some s else none
  | _ => none

def decU32 : JV → Option Nat
  | .num (.int i) => if 0 ≤ i ∧ i < 4294967296 then some i.toNat else none
  | _ => none

def rulesToJson (rs : List Rule) : JV := .arr (rs.map ruleToJson)

def rulesOfJson : JV → Option (List Rule)
  | .arr xs => allOpt ruleOfJson xs
  | _ => none

def keyIdsToJson (ks : List Str) : JV := .arr (ks.map .str)

def keyIdsOfJson : JV → Option (List Str)
  | .arr xs => allOpt keyIdOfJson xs
  | _ => none

structure StepW where
  typ : Str
  name : Str
  threshold : Nat
  expMaterials : List Rule
  expProducts : List Rule
  pubkeys : List Str
  expCommand : List Str
  deriving DecidableEq, Repr

def stepToJson (s : StepW) : JV :=
  .obj [(kType, .str s.typ), (kThreshold, .num (.int s.threshold)), (kName, .str s.name),
        (kExpMaterials, rulesToJson s.expMaterials), (kExpProducts, rulesToJson s.expProducts),
        (kPubkeys, keyIdsToJson s.pubkeys), (kExpCommand, commandToJson s.expCommand)]

def stepOfJson : JV → Option StepW
  | .obj kvs =>
    (req kType kvs decStr).bind fun typ =>
    (req kThreshold kvs decU32).bind fun threshold =>
    (req kName kvs decStr).bind fun name =>
    (req kExpMaterials kvs rulesOfJson).bind fun em =>
    (req kExpProducts kvs rulesOfJson).bind fun ep =>
    (req kPubkeys kvs keyIdsOfJson).bind fun pk =>
    (req kExpCommand kvs commandOfJson).bind fun cmd =>
    some { typ := typ, name := name, threshold := threshold, expMaterials := em, expProducts := ep, pubkeys := pk,
           expCommand := cmd }
  | _ => none

structure InspW where
  typ : Str
  name : Str
  expMaterials : List Rule
  expProducts : List Rule
  run : List Str
  deriving DecidableEq, Repr

def inspToJson (i : InspW) : JV :=
  .obj [(kType, .str i.typ), (kName, .str i.name), (kExpMaterials, rulesToJson i.expMaterials),
        (kExpProducts, rulesToJson i.expProducts), (kRun, commandToJson i.run)]

def inspOfJson : JV → Option InspW
  | .obj kvs =>
    (req kType kvs decStr).bind fun typ =>
    (req kName kvs decStr).bind fun name =>
    (req kExpMaterials kvs rulesOfJson).bind fun em =>
    (req kExpProducts kvs rulesOfJson).bind fun ep =>
    (req kRun kvs commandOfJson).bind fun run =>
    some { typ := typ, name := name, expMaterials := em, expProducts := ep, run := run }
  | _ => none

/-! ### layout -/

/-- what the layout codec takes from outside: one public key ↔ JSON and its intrinsic id
    (`impl Serialize / Deserialize for PublicKey`, C12), chrono's RFC 3339 writer and reader -/
structure DocEnv (K : Type) where
  keyToJson : K → JV
  keyOfJson : JV → Option K
  kidOf : K → Str
  fmtTime : Int → Str
  parseTime : Str → Option Int

structure LayoutW (K : Type) where
  expires : Int
  readme : Str
  keys : List (Str × K)
  steps : List StepW
  inspect : List InspW

variable {K : Type}

def keysToJson (E : DocEnv K) (ks : List (Str × K)) : JV := .obj (ks.map fun p => (p.1, E.keyToJson p.2))

/-- the key table: every member name must be a key id and every value a key; entries filed under
    an id that is not the key's own are dropped (`Layout::try_into`) -/
def keysOfJson (E : DocEnv K) : JV → Option (List (Str × K))
  | .obj kvs =>
    (allOpt (fun p => if keyIdOk p.1 then (E.keyOfJson p.2).map fun k => (p.1, k) else none) kvs).map
      fun ks => ks.filter fun p => E.kidOf p.2 == p.1
  | _ => none

def layoutToJson (E : DocEnv K) (L : LayoutW K) : JV :=
  .obj [(kType, .str sLayout), (kExpires, .str (E.fmtTime L.expires)), (kReadme, .str L.readme),
        (kKeys, keysToJson E L.keys), (kSteps, .arr (L.steps.map stepToJson)),
        (kInspect, .arr (L.inspect.map inspToJson))]

def stepsOfJson : JV → Option (List StepW)
  | .arr xs => allOpt stepOfJson xs
  | _ => none

def inspsOfJson : JV → Option (List InspW)
  | .arr xs => allOpt inspOfJson xs
  | _ => none

/-- `LayoutMetadata::new` keeps the expiry to the second, a leap second stays one
    (instants are `Time.key`s, see Model/Time.lean) -/
def truncSec (t : Int) : Int := Time.truncKey t

/-- The environment with chrono's RFC 3339 reader and writer as modelled in Model/Time.lean. -/
def DocEnv.withStdTime {K : Type} (E : DocEnv K) : DocEnv K :=
  { E with fmtTime := Time.fmtTimeKey, parseTime := Time.parseTimeKey }

def layoutOfJson (E : DocEnv K) : JV → Option (LayoutW K)
  | .obj kvs =>
    (req kType kvs decStr).bind fun _ =>
    (req kExpires kvs decStr).bind fun expText =>
    (req kReadme kvs decStr).bind fun readme =>
    (req kKeys kvs (keysOfJson E)).bind fun keys =>
    (req kSteps kvs stepsOfJson).bind fun steps =>
    (req kInspect kvs inspsOfJson).bind fun inspect =>
    (E.parseTime expText).bind fun expires =>
    some { expires := truncSec expires, readme := readme, keys := keys, steps := steps, inspect := inspect }
  | _ => none

/-! ### signed block -/

structure SigW where
  keyid : Str
  sig : Bytes
  deriving DecidableEq, Repr

def sigToJson (s : SigW) : JV := .obj [(kKeyid, .str s.keyid), (kSig, .str (hexEncode s.sig))]

def hexOfJson : JV → Option Bytes
  | .str s => hexDecode s
  | _ => none

def sigOfJson : JV → Option SigW
  | .obj kvs =>
    (req kKeyid kvs keyIdOfJson).bind fun keyid =>
    (req kSig kvs hexOfJson).bind fun sig =>
    some { keyid := keyid, sig := sig }
  | _ => none

inductive MetaW (K : Type) where
  | layout (L : LayoutW K)
  | link (l : LinkW)

structure BlockW (K : Type) where
  signatures : List SigW
  signed : MetaW K

def metaToJson (E : DocEnv K) : MetaW K → JV
  | .layout L => layoutToJson E L
  | .link l => linkToJson l

/-- the untagged `MetadataWrapper`: the layout reader is tried first, then the link reader -/
def metaOfJson (E : DocEnv K) (v : JV) : Option (MetaW K) :=
  match layoutOfJson E v with
  | some L => some (.layout L)
  | none => (linkOfJson v).map .link

def blockToJson (E : DocEnv K) (b : BlockW K) : JV :=
  .obj [(kSignatures, .arr (b.signatures.map sigToJson)), (kSigned, metaToJson E b.signed)]

def sigsOfJson : JV → Option (List SigW)
  | .arr xs => allOpt sigOfJson xs
  | _ => none

def blockOfJson (E : DocEnv K) : JV → Option (BlockW K)
  | .obj kvs =>
    (req kSignatures kvs sigsOfJson).bind fun sigs =>
    (req kSigned kvs (metaOfJson E)).bind fun m =>
    some { signatures := sigs, signed := m }
  | _ => none

end InToto.Wire
