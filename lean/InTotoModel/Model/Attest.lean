import InTotoModel.Model.Basic
import InTotoModel.Generated.Schema
/-
  Attestation formats (src/models/statement/*, src/models/predicate/*) at the level the property
  needs: which top-level member names a document must / may have to be accepted by a format
  (serde-derive semantics: a non-`Option` field is required, `deny_unknown_fields` rejects any other
  member), the version string tables, and the consistency check between a statement's declared
  predicate type and the predicate it contains.  The schemas and tables themselves are
  `Generated.Schema` (translated from the source on every run).
-/
namespace InToto.Attest
open InToto.Generated

def findSchema (n : Str) : Option StructSpec := schemas.find? (·.name = n)

def fieldNames (s : StructSpec) : List Str := s.fields.map (·.name)
def requiredNames (s : StructSpec) : List Str := (s.fields.filter (·.required)).map (·.name)

/-- necessary condition for serde-derive to accept an object with these member names -/
def admits (s : StructSpec) (keys : List Str) : Bool :=
  (requiredNames s).all (· ∈ keys) && (!s.denyUnknown || keys.all (· ∈ fieldNames s))

def predicateFormats : List Str :=
  [['L', 'i', 'n', 'k', 'V', '0', '2'],
   ['S', 'L', 'S', 'A', 'P', 'r', 'o', 'v', 'e', 'n', 'a', 'n', 'c', 'e', 'V', '0', '1'],
   ['S', 'L', 'S', 'A', 'P', 'r', 'o', 'v', 'e', 'n', 'a', 'n', 'c', 'e', 'V', '0', '2']]

def statementFormats : List Str :=
  [['S', 't', 'a', 't', 'e', 'N', 'a', 'i', 'v', 'e'], ['S', 't', 'a', 't', 'e', 'V', '0', '1']]

/-- formats (by struct name) that can accept an object with these member names -/
def candidates (formats : List Str) (keys : List Str) : List Str :=
  formats.filter fun n =>
    match findSchema n with
    | some s => admits s keys
    | none => false

def lookupTbl (k : Str) : List (Str × Str) → Option Str
  | [] => none
  | (a, b) :: r => if a = k then some b else lookupTbl k r

/-- `PredicateVer::try_from(String)` / `String::from(PredicateVer)` -/
def predicateVerOf (s : Str) : Option Str := lookupTbl s predicateVerOfString
def predicateVerStr (v : Str) : Option Str := lookupTbl v predicateVerToString
def statementVerOf (s : Str) : Option Str := lookupTbl s statementVerOfString
def statementVerStr (v : Str) : Option Str := lookupTbl v statementVerToString

/-- which version a predicate of a given struct reports (`PredicateLayout::version`) -/
def versionOfFormat (structName : Str) : Option Str :=
  if structName = ['L', 'i', 'n', 'k', 'V', '0', '2'] then some ['L', 'i', 'n', 'k', 'V', '0', '_', '2']
  else if structName = ['S', 'L', 'S', 'A', 'P', 'r', 'o', 'v', 'e', 'n', 'a', 'n', 'c', 'e', 'V', '0', '1'] then
    some ['S', 'L', 'S', 'A', 'P', 'r', 'o', 'v', 'e', 'n', 'a', 'n', 'c', 'e', 'V', '0', '_', '1']
  else if structName = ['S', 'L', 'S', 'A', 'P', 'r', 'o', 'v', 'e', 'n', 'a', 'n', 'c', 'e', 'V', '0', '2'] then
    some ['S', 'L', 'S', 'A', 'P', 'r', 'o', 'v', 'e', 'n', 'a', 'n', 'c', 'e', 'V', '0', '_', '2']
  else none

/-- Decoding of a v0.1 statement's (predicateType, predicate) pair, after the `fix:` commit: the
    declared type is read through the string table, the predicate through version detection, and
    the statement is rejected unless they name the same version. -/
def decodeTypedPredicate (declared : Str) (predicateKeys : List Str) : Option (Str × Str) :=
  match predicateVerOf declared, candidates predicateFormats predicateKeys with
  | some v, [fmt] => if versionOfFormat fmt = some v then some (v, fmt) else none
  | _, _ => none

end InToto.Attest
