import InTotoModel.Model.Json
import InTotoModel.Model.Rules
/-
  Wire codecs (value ↔ JSON value), mirroring the hand-written and derived (de)serialisers:

  * `ArtifactRule` — `impl Serialize` / `ArtifactRuleVisitor::visit_seq` (src/models/layout/rule.rs):
    a JSON array of strings; the visitor reads positionally and serde_json rejects surplus elements.
  * `ByProducts` (src/models/link/byproducts.rs): `return-value`, `stderr`, `stdout` optional
    (`skip_serializing_if`), every other member goes to the flattened string map.
  * `Command` — array of strings.
  serde-derive behaviour used: a missing or `null` `Option` field is `None`; a missing non-`Option`
  field is an error; unknown members are ignored unless `deny_unknown_fields`; an `i32` accepts
  exactly the integers in range; `flatten`ed `BTreeMap<String,String>` takes all members not claimed
  by a named field and rejects non-string values.  JSON objects reaching a decoder have unique keys
  (serde_json's `Map`).
-/
namespace InToto.Wire
open InToto InToto.Rules

/-! ### ArtifactRule -/

def kw (s : String) : Str := s.toList

def ruleTokens : Rule → List Str
  | .create p => [['C', 'R', 'E', 'A', 'T', 'E'], p]
  | .delete p => [['D', 'E', 'L', 'E', 'T', 'E'], p]
  | .modify p => [['M', 'O', 'D', 'I', 'F', 'Y'], p]
  | .allow p => [['A', 'L', 'L', 'O', 'W'], p]
  | .require p => [['R', 'E', 'Q', 'U', 'I', 'R', 'E'], p]
  | .disallow p => [['D', 'I', 'S', 'A', 'L', 'L', 'O', 'W'], p]
  | .matchR p s w d f =>
    [['M', 'A', 'T', 'C', 'H'], p]
      ++ (match s with | some x => [['I', 'N'], x] | none => [])
      ++ [['W', 'I', 'T', 'H'], (match w with | .materials => ['M', 'A', 'T', 'E', 'R', 'I', 'A', 'L', 'S'] | .products => ['P', 'R', 'O', 'D', 'U', 'C', 'T', 'S'])]
      ++ (match d with | some x => [['I', 'N'], x] | none => [])
      ++ [['F', 'R', 'O', 'M'], f]

def parseWith (t : Str) : Option ArtKind :=
  if t = ['M', 'A', 'T', 'E', 'R', 'I', 'A', 'L', 'S'] then some .materials
  else if t = ['P', 'R', 'O', 'D', 'U', 'C', 'T', 'S'] then some .products
  else none

/-- after `WITH`: `(MATERIALS|PRODUCTS) [IN dst] FROM step`, then the end of the sequence -/
def parseAfterWith (p : Str) (s : Option Str) : List Str → Option Rule
  | target :: rest =>
    match parseWith target with
    | none => none
    | some w =>
      match rest with
      | [t1, dst, t2, step] =>
        if t1 = ['I', 'N'] ∧ t2 = ['F', 'R', 'O', 'M'] then some (.matchR p s w (some dst) step) else none
      | [t1, step] =>
        if t1 = ['F', 'R', 'O', 'M'] then some (.matchR p s w none step) else none
      | _ => none
  | [] => none

/-- `ArtifactRuleVisitor::visit_seq` on a sequence of strings (surplus elements are an error) -/
def parseRuleTokens : List Str → Option Rule
  | typ :: p :: rest =>
    if typ = ['C', 'R', 'E', 'A', 'T', 'E'] then (if rest = [] then some (.create p) else none)
    else if typ = ['D', 'E', 'L', 'E', 'T', 'E'] then (if rest = [] then some (.delete p) else none)
    else if typ = ['M', 'O', 'D', 'I', 'F', 'Y'] then (if rest = [] then some (.modify p) else none)
    else if typ = ['A', 'L', 'L', 'O', 'W'] then (if rest = [] then some (.allow p) else none)
    else if typ = ['R', 'E', 'Q', 'U', 'I', 'R', 'E'] then (if rest = [] then some (.require p) else none)
    else if typ = ['D', 'I', 'S', 'A', 'L', 'L', 'O', 'W'] then (if rest = [] then some (.disallow p) else none)
    else if typ = ['M', 'A', 'T', 'C', 'H'] then
      match rest with
      | t :: rest' =>
        if t = ['I', 'N'] then
          match rest' with
          | src :: t2 :: rest'' => if t2 = ['W', 'I', 'T', 'H'] then parseAfterWith p (some src) rest'' else none
          | _ => none
        else if t = ['W', 'I', 'T', 'H'] then parseAfterWith p none rest'
        else none
      | [] => none
    else none
  | _ => none

def strsOfJson : List JV → Option (List Str)
  | [] => some []
  | .str s :: r => (strsOfJson r).map (s :: ·)
  | _ :: _ => none

def ruleToJson (r : Rule) : JV := .arr ((ruleTokens r).map .str)

def ruleOfJson : JV → Option Rule
  | .arr xs => (strsOfJson xs).bind parseRuleTokens
  | _ => none

/-! ### Command -/

def commandToJson (c : List Str) : JV := .arr (c.map .str)
def commandOfJson : JV → Option (List Str)
  | .arr xs => strsOfJson xs
  | _ => none

/-! ### ByProducts -/

structure ByProducts where
  returnValue : Option Int
  stderr : Option Str
  stdout : Option Str
  other : List (Str × Str)
  deriving DecidableEq, Repr

def kReturn : Str := ['r', 'e', 't', 'u', 'r', 'n', '-', 'v', 'a', 'l', 'u', 'e']
def kStderr : Str := ['s', 't', 'd', 'e', 'r', 'r']
def kStdout : Str := ['s', 't', 'd', 'o', 'u', 't']

def optField {α : Type} (k : Str) (f : α → JV) : Option α → List (Str × JV)
  | some a => [(k, f a)]
  | none => []

/-- serialisation order of the derive: named fields first, then the flattened map -/
def byProductsToJson (b : ByProducts) : JV :=
  .obj (optField kReturn (fun i => .num (.int i)) b.returnValue
    ++ optField kStderr .str b.stderr ++ optField kStdout .str b.stdout
    ++ b.other.map (fun p => (p.1, .str p.2)))

def getField (k : Str) : List (Str × JV) → Option JV
  | [] => none
  | (k', v) :: r => if k' = k then some v else getField k r

def inI32 (i : Int) : Bool := decide (-(2 ^ 31 : Int) ≤ i) && decide (i < (2 ^ 31 : Int))

/-- an optional field: absent or `null` is `None`; otherwise it must decode -/
def optDecode {α : Type} (dec : JV → Option α) : Option JV → Option (Option α)
  | none => some none
  | some .null => some none
  | some v => (dec v).map some

def decI32 : JV → Option Int
  | .num (.int i) => if inI32 i then some i else none
  | _ => none

def decStr : JV → Option Str
  | .str s => some s
  | _ => none

def flattenRest : List (Str × JV) → Option (List (Str × Str))
  | [] => some []
  | (k, v) :: r =>
    if k = kReturn ∨ k = kStderr ∨ k = kStdout then flattenRest r
    else
      match v with
      | .str s => (flattenRest r).map ((k, s) :: ·)
      | _ => none

def byProductsOfJson : JV → Option ByProducts
  | .obj kvs => do
    let rv ← optDecode decI32 (getField kReturn kvs)
    let se ← optDecode decStr (getField kStderr kvs)
    let so ← optDecode decStr (getField kStdout kvs)
    let other ← flattenRest kvs
    pure { returnValue := rv, stderr := se, stdout := so, other := other }
  | _ => none

/-- representable byproducts: the extra-field map does not reuse a reserved name and the return value
    fits `i32` (what the type enforces); keys pairwise distinct (a `BTreeMap`) -/
def ByProducts.WF (b : ByProducts) : Prop :=
  (∀ p ∈ b.other, p.1 ≠ kReturn ∧ p.1 ≠ kStderr ∧ p.1 ≠ kStdout) ∧
  (∀ i, b.returnValue = some i → inI32 i = true)

end InToto.Wire
