import InTotoModel.Model.Md
/-
  SHA-512 (FIPS 180-4), executable; the same structure as `Model/Sha256.lean` with 64-bit words,
  80 rounds and 128-byte blocks.  The constants were recomputed (cube / square roots of the first
  primes) and the whole function is compared with ring on every run (`sha512` and `hashes` ops).
-/
namespace InToto.Sha512

def K : Array UInt64 := #[
  0x428a2f98d728ae22, 0x7137449123ef65cd, 0xb5c0fbcfec4d3b2f, 0xe9b5dba58189dbbc,
  0x3956c25bf348b538, 0x59f111f1b605d019, 0x923f82a4af194f9b, 0xab1c5ed5da6d8118,
  0xd807aa98a3030242, 0x12835b0145706fbe, 0x243185be4ee4b28c, 0x550c7dc3d5ffb4e2,
  0x72be5d74f27b896f, 0x80deb1fe3b1696b1, 0x9bdc06a725c71235, 0xc19bf174cf692694,
  0xe49b69c19ef14ad2, 0xefbe4786384f25e3, 0x0fc19dc68b8cd5b5, 0x240ca1cc77ac9c65,
  0x2de92c6f592b0275, 0x4a7484aa6ea6e483, 0x5cb0a9dcbd41fbd4, 0x76f988da831153b5,
  0x983e5152ee66dfab, 0xa831c66d2db43210, 0xb00327c898fb213f, 0xbf597fc7beef0ee4,
  0xc6e00bf33da88fc2, 0xd5a79147930aa725, 0x06ca6351e003826f, 0x142929670a0e6e70,
  0x27b70a8546d22ffc, 0x2e1b21385c26c926, 0x4d2c6dfc5ac42aed, 0x53380d139d95b3df,
  0x650a73548baf63de, 0x766a0abb3c77b2a8, 0x81c2c92e47edaee6, 0x92722c851482353b,
  0xa2bfe8a14cf10364, 0xa81a664bbc423001, 0xc24b8b70d0f89791, 0xc76c51a30654be30,
  0xd192e819d6ef5218, 0xd69906245565a910, 0xf40e35855771202a, 0x106aa07032bbd1b8,
  0x19a4c116b8d2d0c8, 0x1e376c085141ab53, 0x2748774cdf8eeb99, 0x34b0bcb5e19b48a8,
  0x391c0cb3c5c95a63, 0x4ed8aa4ae3418acb, 0x5b9cca4f7763e373, 0x682e6ff3d6b2b8a3,
  0x748f82ee5defb2fc, 0x78a5636f43172f60, 0x84c87814a1f0ab72, 0x8cc702081a6439ec,
  0x90befffa23631e28, 0xa4506cebde82bde9, 0xbef9a3f7b2c67915, 0xc67178f2e372532b,
  0xca273eceea26619c, 0xd186b8c721c0c207, 0xeada7dd6cde0eb1e, 0xf57d4f7fee6ed178,
  0x06f067aa72176fba, 0x0a637dc5a2c898a6, 0x113f9804bef90dae, 0x1b710b35131c471b,
  0x28db77f523047d84, 0x32caab7b40c72493, 0x3c9ebe0a15c9bebc, 0x431d67c49c100d4c,
  0x4cc5d4becb3e42b6, 0x597f299cfc657e2a, 0x5fcb6fab3ad6faec, 0x6c44198c4a475817]

/-- the chaining value: eight words -/
structure W8 where
  a : UInt64
  b : UInt64
  c : UInt64
  d : UInt64
  e : UInt64
  f : UInt64
  g : UInt64
  h : UInt64
  deriving DecidableEq, Repr

def H0 : W8 := ⟨0x6a09e667f3bcc908, 0xbb67ae8584caa73b, 0x3c6ef372fe94f82b, 0xa54ff53a5f1d36f1, 0x510e527fade682d1, 0x9b05688c2b3e6c1f, 0x1f83d9abfb41bd6b, 0x5be0cd19137e2179⟩

@[inline] def rotr (x : UInt64) (n : UInt64) : UInt64 := (x >>> n) ||| (x <<< (64 - n))

def word (b : Array UInt8) (i : Nat) : UInt64 :=
  (b[i]!.toUInt64 <<< 56) ||| (b[i + 1]!.toUInt64 <<< 48) ||| (b[i + 2]!.toUInt64 <<< 40) ||| (b[i + 3]!.toUInt64 <<< 32) |||
  (b[i + 4]!.toUInt64 <<< 24) ||| (b[i + 5]!.toUInt64 <<< 16) ||| (b[i + 6]!.toUInt64 <<< 8) ||| b[i + 7]!.toUInt64

def compress (h : W8) (block : Array UInt8) : W8 := Id.run do
  let mut w : Array UInt64 := Array.replicate 80 0
  for t in [0:16] do
    w := w.set! t (word block (8 * t))
  for t in [16:80] do
    let s0 := rotr w[t - 15]! 1 ^^^ rotr w[t - 15]! 8 ^^^ (w[t - 15]! >>> 7)
    let s1 := rotr w[t - 2]! 19 ^^^ rotr w[t - 2]! 61 ^^^ (w[t - 2]! >>> 6)
    w := w.set! t (w[t - 16]! + s0 + w[t - 7]! + s1)
  let mut a := h.a
  let mut b := h.b
  let mut c := h.c
  let mut d := h.d
  let mut e := h.e
  let mut f := h.f
  let mut g := h.g
  let mut hh := h.h
  for t in [0:80] do
    let S1 := rotr e 14 ^^^ rotr e 18 ^^^ rotr e 41
    let ch := (e &&& f) ^^^ ((~~~ e) &&& g)
    let t1 := hh + S1 + ch + K[t]! + w[t]!
    let S0 := rotr a 28 ^^^ rotr a 34 ^^^ rotr a 39
    let maj := (a &&& b) ^^^ (a &&& c) ^^^ (b &&& c)
    let t2 := S0 + maj
    hh := g
    g := f
    f := e
    e := d + t1
    d := c
    c := b
    b := a
    a := t1 + t2
  return ⟨h.a + a, h.b + b, h.c + c, h.d + d, h.e + e, h.f + f, h.g + g, h.h + hh⟩

/-- the padding appended to a message of `len` bytes: `0x80`, zeros, the bit length in 16 bytes -/
def padTail (len : Nat) : Bytes :=
  [(0x80 : UInt8)] ++ List.replicate ((239 - len % 128) % 128) (0 : UInt8) ++
    ((List.range 16).map fun i => UInt8.ofNat ((len * 8) >>> (8 * (15 - i)) % 256))

def beBytes (x : UInt64) : Bytes := [(x >>> 56).toUInt8, (x >>> 48).toUInt8, (x >>> 40).toUInt8, (x >>> 32).toUInt8, (x >>> 24).toUInt8, (x >>> 16).toUInt8, (x >>> 8).toUInt8, x.toUInt8]

def outBytes (s : W8) : Bytes :=
  beBytes s.a ++ beBytes s.b ++ beBytes s.c ++ beBytes s.d ++ beBytes s.e ++ beBytes s.f ++ beBytes s.g ++ beBytes s.h

def alg : Md.Alg W8 :=
  { block := 128, init := H0, compress := fun h b => compress h b.toArray, padTail := padTail, out := outBytes }

def hash (msg : Bytes) : Bytes := alg.hash msg

/-- a digest has 64 bytes -/
theorem hash_length (msg : Bytes) : (hash msg).length = 64 := rfl

end InToto.Sha512
