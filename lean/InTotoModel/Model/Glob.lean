import InTotoModel.Model.Basic
/-
  Specification-level model of `glob::Pattern` (glob 0.3.4) with `MatchOptions::new()`
  (case sensitive, `*`/`?` match `/`, no special treatment of a leading dot), as used by
  `VirtualTargetPath::matches` (src/models/helpers.rs).  Library behaviour: validated
  differentially (ops `globparse`, `glob`).
-/
namespace InToto.Glob

inductive Spec where
  | single (c : Char)
  | range (a b : Char)
  deriving DecidableEq, Repr

inductive Tok where
  | char (c : Char)
  | anyChar
  | anySeq
  | anyRec
  | within (cs : List Spec)
  | except (cs : List Spec)
  deriving DecidableEq, Repr

/-- `parse_char_specifiers` -/
def parseSpecs : List Char → List Spec
  | a :: '-' :: b :: r => .range a b :: parseSpecs r
  | a :: r => .single a :: parseSpecs r
  | [] => []

def indexOf (c : Char) : List Char → Option Nat
  | [] => none
  | x :: r => if x = c then some 0 else (indexOf c r).map (· + 1)

def countStars : List Char → Nat
  | '*' :: r => countStars r + 1
  | _ => 0

/-- `Pattern::new`, with fuel = number of characters (every step consumes at least one).
    `prev` is the character before the current position, `toks` the tokens so far (reversed). -/
def parseAux : Nat → Option Char → List Char → List Tok → Option (List Tok)
  | 0, _, [], toks => some toks.reverse
  | 0, _, _ :: _, _ => none
  | _ + 1, _, [], toks => some toks.reverse
  | f + 1, prev, c :: r, toks =>
    if c = '?' then parseAux f (some c) r (.anyChar :: toks)
    else if c = '*' then
      let count := countStars (c :: r)
      let after := (c :: r).drop count
      if count > 2 then none
      else if count = 2 then
        -- `**` must be a whole path component
        if prev = none ∨ prev = some '/' then
          match after with
          | '/' :: after' =>
            let toks' := if toks.length > 1 ∧ toks.head? = some .anyRec then toks else .anyRec :: toks
            parseAux f (some '/') after' toks'
          | [] =>
            let toks' := if toks.length > 1 ∧ toks.head? = some .anyRec then toks else .anyRec :: toks
            parseAux f (some '*') [] toks'
          | _ :: _ => none
        else none
      else parseAux f (some c) r (.anySeq :: toks)
    else if c = '[' then
      match r with
      | '!' :: r' =>
        if r'.length ≥ 2 then
          match indexOf ']' (r'.drop 1) with
          | some j => parseAux f (some ']') (r'.drop (j + 2)) (.except (parseSpecs (r'.take (j + 1))) :: toks)
          | none => none
        else none
      | _ :: _ =>
        if r.length ≥ 2 then
          match indexOf ']' (r.drop 1) with
          | some j => parseAux f (some ']') (r.drop (j + 2)) (.within (parseSpecs (r.take (j + 1))) :: toks)
          | none => none
        else none
      | [] => none
    else parseAux f (some c) r (.char c :: toks)

def parse (p : Str) : Option (List Tok) := parseAux p.length none p []

def inSpecs (cs : List Spec) (c : Char) : Bool :=
  cs.any fun s =>
    match s with
    | .single x => c = x
    | .range a b => a.toNat ≤ c.toNat && c.toNat ≤ b.toNat

inductive MR where
  | isMatch
  | sub       -- SubPatternDoesntMatch
  | entire    -- EntirePatternDoesntMatch
  deriving DecidableEq, Repr

/-- the `while let Some(c) = file.next()` loop of a sequence token; `k` = matching of the remaining
    tokens; when the file is exhausted the outer `for` continues with the remaining tokens -/
def scan (isRec : Bool) (k : Str → MR) : Str → MR
  | [] => k []
  | c :: f =>
    if isRec && c != '/' then scan isRec k f
    else
      match k f with
      | .sub => scan isRec k f
      | m => m

/-- `matches_from` -/
def matchFrom : List Tok → Str → MR
  | [], file => if file.isEmpty then .isMatch else .sub
  | .anySeq :: rest, file =>
    match matchFrom rest file with
    | .sub => scan false (matchFrom rest) file
    | m => m
  | .anyRec :: rest, file =>
    match matchFrom rest file with
    | .sub => scan true (matchFrom rest) file
    | m => m
  | tok :: rest, file =>
    match file with
    | [] => .entire
    | c :: f =>
      let ok := match tok with
        | .anyChar => true
        | .within cs => inSpecs cs c
        | .except cs => !inSpecs cs c
        | .char c2 => c = c2
        | _ => false
      if ok then matchFrom rest f else .sub

/-- `Pattern::new(pattern)?.matches(s)`: `none` = the pattern is rejected -/
def globMatch (pattern s : Str) : Option Bool :=
  match parse pattern with
  | some toks => some (matchFrom toks s == .isMatch)
  | none => none

end InToto.Glob
