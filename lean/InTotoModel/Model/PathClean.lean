import InTotoModel.Model.Basic
/-
  Specification-level model of `path_clean::clean` (path-clean 1.0.1) on Unix paths given as
  text, composed with `std::path::Path::components`: split at `/`, empty and `.` components are
  dropped, `x/..` cancels, `..` at the root is dropped, leading `..` of a relative path stay, the
  empty result is `.`.  Library behaviour: validated differentially (op `clean`).
-/
namespace InToto.PathClean

def splitSlash : Str → Str → List Str
  | [], cur => [cur.reverse]
  | c :: r, cur => if c = '/' then cur.reverse :: splitSlash r [] else splitSlash r (c :: cur)

def components (p : Str) : List Str :=
  (splitSlash p []).filter fun c => !c.isEmpty && c != ['.']

/-- process components; `out` is reversed -/
def fold (rooted : Bool) : List Str → List Str → List Str
  | [], out => out.reverse
  | c :: r, out =>
    if c = ['.', '.'] then
      match out with
      | [] => if rooted then fold rooted r [] else fold rooted r [c]
      | top :: rest => if top = ['.', '.'] then fold rooted r (c :: out) else fold rooted r rest
    else fold rooted r (c :: out)

def join : List Str → Str
  | [] => []
  | [c] => c
  | c :: r => c ++ '/' :: join r

def clean (p : Str) : Str :=
  let rooted := p.head? = some '/'
  let out := fold rooted (components p) []
  if rooted then '/' :: join out
  else if out.isEmpty then ['.'] else join out

end InToto.PathClean
