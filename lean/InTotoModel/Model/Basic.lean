/-
  Shared vocabulary of every model.

  `Out` is the three-valued outcome used throughout: a value, an error the
  Rust code returns as `Err(_)`, or a panic (slice/index out of range, `unwrap`
  on `None`/`Err`, `assert!`, `panic!`).  Error payloads are small numeric tags
  (a stage number in the verification pipeline, `0` elsewhere): messages are
  never compared.
-/

namespace InToto

inductive Out (α : Type) where
  | ok (a : α)
  | err (code : Nat)
  | panic (site : Nat)
  deriving Repr, DecidableEq

namespace Out

@[inline] def bind {α β : Type} (x : Out α) (f : α → Out β) : Out β :=
  match x with
  | ok a => f a
  | err c => err c
  | panic s => panic s

instance : Monad Out where
  pure := ok
  bind := bind

def isOk {α : Type} : Out α → Bool
  | ok _ => true
  | _ => false

def isPanic {α : Type} : Out α → Bool
  | panic _ => true
  | _ => false

@[simp] theorem bind_ok {α β : Type} (a : α) (f : α → Out β) : (ok a >>= f) = f a := rfl
@[simp] theorem bind_err {α β : Type} (c : Nat) (f : α → Out β) : (err c >>= f) = err c := rfl
@[simp] theorem bind_panic {α β : Type} (s : Nat) (f : α → Out β) : (panic s >>= f) = panic s := rfl
@[simp] theorem pure_eq {α : Type} (a : α) : (pure a : Out α) = ok a := rfl

theorem bind_eq_ok {α β : Type} {x : Out α} {f : α → Out β} {b : β} :
    (x >>= f) = ok b ↔ ∃ a, x = ok a ∧ f a = ok b := by
  cases x <;> simp

theorem bind_eq_panic {α β : Type} {x : Out α} {f : α → Out β} {s : Nat} :
    (x >>= f) = panic s ↔ x = panic s ∨ ∃ a, x = ok a ∧ f a = panic s := by
  cases x <;> simp

/-- Map an `Option` into `Out`, `none` becoming `err code`. -/
def ofOption {α : Type} (code : Nat) : Option α → Out α
  | some a => ok a
  | none => err code

@[simp] theorem ofOption_some {α : Type} (c : Nat) (a : α) : ofOption c (some a) = ok a := rfl
@[simp] theorem ofOption_none {α : Type} (c : Nat) : ofOption c (none : Option α) = err c := rfl

end Out

/-- Bytes. -/
abbrev Bytes := List UInt8

/-- Text as Unicode scalar values. -/
abbrev Str := List Char

/-- Code-point order on text (= bytewise order of the UTF-8 encodings = Rust `String` order). -/
def strLt : Str → Str → Bool
  | [], [] => false
  | [], _ :: _ => true
  | _ :: _, [] => false
  | a :: as, b :: bs => if a.toNat < b.toNat then true else if b.toNat < a.toNat then false else strLt as bs


end InToto
