import InTotoModel.Model.Basic
/-
  RFC 3339 instants as the library reads and writes them.

  The library reads a layout's `expires` with chrono 0.4.45 `DateTime::parse_from_rfc3339`, converts
  the result to UTC (`with_timezone(&Utc)`), keeps it to the second (`LayoutMetadata::new`) and writes
  it back with `to_rfc3339_opts(SecondsFormat::Secs, true)`.  This file is a specification-level model
  of exactly that behaviour:

  * `parseRfc3339`  — chrono's reader: `YYYY-MM-DD`, a separator `T`, `t` or space, `hh:mm:ss`,
    an optional fraction `.` + at least one digit (digits after the ninth are skipped), and a zone
    `Z`, `z` or sign `hh:mm` (sign `+`, `-` or U+2212; `hh ≤ 23`, `mm ≤ 59`).  Years are exactly four
    digits, the date must exist in the proleptic Gregorian calendar, `ss = 60` is a leap second and
    is kept as a nanosecond overflow on second 59.  Nothing may follow.
  * `fmtRfc3339`    — the writer with whole seconds and `Z`.
  * `truncWhole`    — the truncation of `LayoutMetadata::new`.

  An instant is `(secs, nanos)`: `secs` are the whole seconds since 1970-01-01T00:00:00Z of the second
  that contains the instant, `nanos < 2·10⁹`, where `nanos ≥ 10⁹` is chrono's representation of a
  leap second.  chrono orders instants lexicographically by `(secs, nanos)`; `Time.key` is an
  order-isomorphic image in `Int` (what the pipeline model compares with the clock).

  The calendar arithmetic is the classical era / century / four-year / year decomposition (days → civil
  date) and Hinnant's closed form (civil date → days); that the first inverts the second is proved in
  `Lemmas/Time.lean`, that both agree with chrono is the `rfc3339` / `fmttime` correspondence.
-/
namespace InToto.Time

structure Time where
  secs : Int
  nanos : Nat
  deriving Repr, DecidableEq

def Time.key (t : Time) : Int := t.secs * 2000000000 + t.nanos

/-- `LayoutMetadata::new`: drop the sub-second part, keep a leap second. -/
def truncWhole (t : Time) : Time :=
  { secs := t.secs, nanos := if t.nanos ≥ 1000000000 then 1000000000 else 0 }

/-- The instant with a given key. -/
def ofKey (k : Int) : Time := { secs := k / 2000000000, nanos := (k % 2000000000).toNat }

/-- `truncWhole` on keys. -/
def truncKey (k : Int) : Int :=
  k - k % 2000000000 + (if k % 2000000000 ≥ 1000000000 then 1000000000 else 0)

-- ------------------------------------------------------------------ calendar

def isLeap (y : Int) : Bool := y % 4 == 0 && (y % 100 != 0 || y % 400 == 0)

def daysInMonth (y m : Int) : Int :=
  if m = 2 then (if isLeap y then 29 else 28)
  else if m = 4 ∨ m = 6 ∨ m = 9 ∨ m = 11 then 30 else 31

/-- Days since 1970-01-01 of a proleptic Gregorian date (month 1–12, day 1–31). -/
def daysFromCivil (y m d : Int) : Int :=
  let y' := if m ≤ 2 then y - 1 else y
  let mp := if m > 2 then m - 3 else m + 9
  365 * y' + y' / 4 - y' / 100 + y' / 400 + (153 * mp + 2) / 5 + d - 1 - 719468

structure Civil where
  y : Int
  m : Int
  d : Int
  deriving Repr, DecidableEq

/-- The date of day number `z0` (days since 1970-01-01). -/
def civilFromDays (z0 : Int) : Civil :=
  let z := z0 + 719468
  let era := z / 146097
  let doe := z % 146097
  let c := if doe / 36524 ≥ 4 then 3 else doe / 36524
  let r1 := doe - c * 36524
  let q := r1 / 1461
  let r2 := r1 % 1461
  let a := if r2 / 365 ≥ 4 then 3 else r2 / 365
  let doy := r2 - a * 365
  let y := era * 400 + c * 100 + q * 4 + a
  let mp := (5 * doy + 2) / 153
  let d := doy - (153 * mp + 2) / 5 + 1
  let m := if mp < 10 then mp + 3 else mp - 9
  ⟨if m ≤ 2 then y + 1 else y, m, d⟩

-- ------------------------------------------------------------------ digits

def digitChar (n : Nat) : Char :=
  match n % 10 with
  | 0 => '0' | 1 => '1' | 2 => '2' | 3 => '3' | 4 => '4'
  | 5 => '5' | 6 => '6' | 7 => '7' | 8 => '8' | _ => '9'

def dig (c : Char) : Option Nat :=
  if c = '0' then some 0 else if c = '1' then some 1 else if c = '2' then some 2
  else if c = '3' then some 3 else if c = '4' then some 4 else if c = '5' then some 5
  else if c = '6' then some 6 else if c = '7' then some 7 else if c = '8' then some 8
  else if c = '9' then some 9 else none

def isDig (c : Char) : Bool := (dig c).isSome

def num2 (a b : Char) : Option Nat :=
  match dig a, dig b with
  | some x, some y => some (10 * x + y)
  | _, _ => none

def num4 (a b c d : Char) : Option Nat :=
  match num2 a b, num2 c d with
  | some x, some y => some (100 * x + y)
  | _, _ => none

/-- Value of a digit string (most significant first). -/
def digitsVal : List Char → Nat → Nat
  | [], acc => acc
  | c :: cs, acc => digitsVal cs (acc * 10 + (dig c).getD 0)

-- ------------------------------------------------------------------ reader

/-- `scan::nanosecond` after the `.`: at least one digit; the first nine scaled to nanoseconds,
    further digits skipped.  Returns the nanoseconds and the unread rest. -/
def parseFrac (s : Str) : Option (Nat × Str) :=
  let ds := s.takeWhile isDig
  if ds.isEmpty then none
  else
    let used := ds.take 9
    some (digitsVal used 0 * 10 ^ (9 - used.length), s.dropWhile isDig)

/-- `scan::timezone_offset` with zulu allowed, minutes mandatory, U+2212 allowed; the result is the
    offset east of UTC in seconds, and nothing may follow. -/
def parseZone (s : Str) : Option Int :=
  match s with
  | [z] => if z = 'Z' ∨ z = 'z' then some 0 else none
  | [sg, h1, h2, colon, m1, m2] =>
    if colon ≠ ':' then none else
    match (if sg = '+' then some false else if sg = '-' ∨ sg = '−' then some true else none),
          num2 h1 h2, num2 m1 m2 with
    | some neg, some h, some m =>
      if m ≥ 60 ∨ h * 3600 + m * 60 ≥ 86400 then none
      else some (if neg then -((h * 3600 + m * 60 : Nat) : Int) else ((h * 3600 + m * 60 : Nat) : Int))
    | _, _, _ => none
  | _ => none

/-- The optional fraction after the seconds field. -/
def fracPart : Str → Option (Nat × Str)
  | '.' :: r => parseFrac r
  | rest => some (0, rest)

def parseRfc3339 (s : Str) : Option Time :=
  match s with
  | y1 :: y2 :: y3 :: y4 :: c4 :: o1 :: o2 :: c7 :: d1 :: d2 :: sep :: h1 :: h2 :: c13 :: n1 :: n2 :: c16 ::
      s1 :: s2 :: rest =>
    match num4 y1 y2 y3 y4, num2 o1 o2, num2 d1 d2, num2 h1 h2, num2 n1 n2, num2 s1 s2 with
    | some y, some mo, some d, some h, some mi, some sc =>
      if c4 ≠ '-' ∨ c7 ≠ '-' ∨ c13 ≠ ':' ∨ c16 ≠ ':' then none
      else if ¬(sep = 'T' ∨ sep = 't' ∨ sep = ' ') then none
      else if mo < 1 ∨ mo > 12 ∨ d < 1 ∨ (d : Int) > daysInMonth y mo then none
      else if h ≥ 24 ∨ mi ≥ 60 ∨ sc > 60 then none
      else
        match fracPart rest with
        | none => none
        | some (nano, zone) =>
          match parseZone zone with
          | none => none
          | some off =>
            some { secs := daysFromCivil y mo d * 86400 + h * 3600 + mi * 60 + (if sc = 60 then 59 else sc) - off
                   nanos := (if sc = 60 then 1000000000 else 0) + nano }
    | _, _, _, _, _, _ => none
  | _ => none

-- ------------------------------------------------------------------ writer

def two (n : Nat) : Str := [digitChar (n / 10), digitChar n]

def four (n : Nat) : Str := [digitChar (n / 1000), digitChar (n / 100), digitChar (n / 10), digitChar n]

/-- Decimal digits of a natural number, most significant first (`0` for zero). -/
def natDigits (n : Nat) : Str :=
  if _h : n < 10 then [digitChar n] else natDigits (n / 10) ++ [digitChar n]
termination_by n
decreasing_by omega

/-- Rust `{:+05}` of an `i32`: sign, then the magnitude zero-padded to four digits. -/
def yearSigned (y : Int) : Str :=
  let mag := y.natAbs
  let ds := natDigits mag
  (if y < 0 then '-' else '+') :: (List.replicate (4 - ds.length) '0' ++ ds)

def yearText (y : Int) : Str :=
  if 0 ≤ y ∧ y ≤ 9999 then four y.toNat else yearSigned y

/-- Date and time-of-day fields of the whole second `secs` (UTC), the seconds field raised by
    `leap` (0 or 1). -/
def dateTimeText (secs : Int) (leap : Nat) (sep : Char) : Str :=
  let days := secs / 86400
  let sod := (secs % 86400).toNat
  let c := civilFromDays days
  yearText c.y ++ ['-'] ++ two c.m.toNat ++ ['-'] ++ two c.d.toNat ++ [sep] ++
    two (sod / 3600) ++ [':'] ++ two (sod % 3600 / 60) ++ [':'] ++ two (sod % 60 + leap)

/-- `to_rfc3339_opts(SecondsFormat::Secs, true)` of a UTC instant. -/
def fmtRfc3339 (t : Time) : Str :=
  dateTimeText t.secs (if t.nanos ≥ 1000000000 then 1 else 0) 'T' ++ ['Z']

-- ------------------------------------------------------------------ any notation of an instant

/-- A way of writing an instant: the UTC offset in minutes (|off| < 1440), the date/time separator,
    whether a zero offset is spelled `Z`/`z` or numerically, which minus sign is used, and how many
    fraction digits follow the nine significant ones. -/
structure Notation where
  offMin : Int
  sep : Char
  zulu : Option Char
  minus : Char
  fraction : Bool
  extraDigits : Str

def nine (n : Nat) : Str :=
  [digitChar (n / 100000000), digitChar (n / 10000000), digitChar (n / 1000000), digitChar (n / 100000),
   digitChar (n / 10000), digitChar (n / 1000), digitChar (n / 100), digitChar (n / 10), digitChar n]

def zoneText (n : Notation) : Str :=
  match n.zulu with
  | some z => [z]
  | none =>
    let a := n.offMin.natAbs
    (if n.offMin < 0 then n.minus else '+') :: (two (a / 60) ++ [':'] ++ two (a % 60))

/-- The text of instant `t` in notation `n`. -/
def render (t : Time) (n : Notation) : Str :=
  let leap := if t.nanos ≥ 1000000000 then 1 else 0
  dateTimeText (t.secs + n.offMin * 60) leap n.sep ++
    (if n.fraction then '.' :: (nine (t.nanos % 1000000000) ++ n.extraDigits) else []) ++ zoneText n

def Notation.Valid (n : Notation) : Prop :=
  -1440 < n.offMin ∧ n.offMin < 1440 ∧
  (n.sep = 'T' ∨ n.sep = 't' ∨ n.sep = ' ') ∧
  (∀ z, n.zulu = some z → (z = 'Z' ∨ z = 'z') ∧ n.offMin = 0) ∧
  (n.minus = '-' ∨ n.minus = '−') ∧
  (∀ c ∈ n.extraDigits, isDig c = true)

-- ------------------------------------------------------------------ timestamps that keep their offset

/-- The UTC offset (seconds east) a text accepted by `parseRfc3339` is written in. -/
def zoneOf (s : Str) : Option Int :=
  match s.getLast? with
  | some c => if c = 'Z' ∨ c = 'z' then some 0 else parseZone (s.drop (s.length - 6))
  | none => none

def three (n : Nat) : Str := [digitChar (n / 100), digitChar (n / 10), digitChar n]

def six (n : Nat) : Str :=
  [digitChar (n / 100000), digitChar (n / 10000), digitChar (n / 1000), digitChar (n / 100), digitChar (n / 10), digitChar n]

/-- `SecondsFormat::AutoSi`: no fraction, or 3, 6 or 9 digits -/
def fracAutoSi (n : Nat) : Str :=
  if n = 0 then [] else if n % 1000000 = 0 then '.' :: three (n / 1000000)
  else if n % 1000 = 0 then '.' :: six (n / 1000) else '.' :: nine n

def zoneTextOff (offSec : Int) : Str :=
  if offSec = 0 then ['Z']
  else (if offSec < 0 then '-' else '+') :: (two (offSec.natAbs / 3600) ++ [':'] ++ two (offSec.natAbs % 3600 / 60))

/-- `to_rfc3339_opts(SecondsFormat::AutoSi, true)` of an instant held with a UTC offset
    (`DateTime<FixedOffset>`, the SLSA `TimeStamp`). -/
def fmtAutoSi (t : Time) (offSec : Int) : Str :=
  dateTimeText (t.secs + offSec) (if t.nanos ≥ 1000000000 then 1 else 0) 'T' ++
    fracAutoSi (t.nanos % 1000000000) ++ zoneTextOff offSec

/-- read and write again: the normal form of a timestamp text -/
def normTimeStamp (s : Str) : Option Str :=
  match parseRfc3339 s, zoneOf s with
  | some t, some off => some (fmtAutoSi t off)
  | _, _ => none

/-- What chrono can hold and the four-digit year can express: a UTC year 0000–9999, and a leap
    second only on second 59 of a minute. -/
def Time.Representable (t : Time) : Prop :=
  0 ≤ (civilFromDays (t.secs / 86400)).y ∧ (civilFromDays (t.secs / 86400)).y ≤ 9999 ∧
  t.nanos < 2000000000 ∧ (t.nanos ≥ 1000000000 → t.secs % 60 = 59)

/-- Reader and writer on keys: what `Model/Codec.lean` uses for a layout's `expires`. -/
def parseTimeKey (s : Str) : Option Int := (parseRfc3339 s).map Time.key

def fmtTimeKey (k : Int) : Str := fmtRfc3339 (ofKey k)

end InToto.Time
