import InTotoModel.Model.PathClean
import InTotoModel.Model.Sha256
/-
  Model of `src/runlib.rs`: `apply_left_strip`, the duplicate-key check of `record_artifacts`, the
  directory walk over an abstract file tree with symbolic links, and the sequencing of `in_toto_run`.

  The operating system, walkdir and the digest primitives are not verified: the tree walk is an
  executable specification (regular files reachable under the given paths, following links to files
  and directories, a link that leads back to a directory being visited is skipped) that the harness
  compares with the real recorder on materialised trees.
-/
namespace InToto.Record

/-! ### `apply_left_strip` -/

def isPrefix : Str → Str → Bool
  | [], _ => true
  | _ :: _, [] => false
  | a :: as, b :: bs => a = b && isPrefix as bs

/-- the loop of `apply_left_strip`: `best` is `find_prefix` (the prefix chosen so far) -/
def stripLoop (path : Str) : List Str → Str → Str
  | [], best => best
  | l :: rest, best =>
    if !isPrefix l path then stripLoop path rest best
    else if !best.isEmpty && best.length ≥ l.length then stripLoop path rest best
    else stripLoop path rest l

def applyLeftStrip (path : Str) (strips : Option (List Str)) : Str :=
  match strips with
  | none => path
  | some ls => path.drop (stripLoop path ls []).length

/-! ### the artifact map: no silent replacement -/

structure Entry where
  key : Str
  fileId : Nat
  content : Bytes
  deriving DecidableEq, Repr

/-- insertion of one recorded file: the same file reached again (overlapping path arguments, two
    links to it under one key) is fine, a *different* file under an existing key is an error -/
def insertUnique (acc : List Entry) (e : Entry) : Out (List Entry) :=
  match acc.find? (fun x => x.key = e.key) with
  | none => .ok (acc ++ [e])
  | some x => if x.fileId = e.fileId then .ok acc else .err 18

def insertAll : List Entry → List Entry → Out (List Entry)
  | acc, [] => .ok acc
  | acc, e :: rest =>
    match insertUnique acc e with
    | .ok acc' => insertAll acc' rest
    | .err c => .err c
    | .panic s => .panic s

/-! ### file tree -/

inductive Node where
  | file (id : Nat) (content : Bytes)
  | dir (entries : List (Str × Node))
  | link (target : Str)
  deriving Repr

def childOf (name : Str) : List (Str × Node) → Option Node
  | [] => none
  | (n, c) :: r => if n = name then some c else childOf name r

/-- node at a canonical (link-free) path below the root -/
def nodeAt (root : Node) : List Str → Option Node
  | [] => some root
  | c :: rest =>
    match root with
    | .dir es =>
      match childOf c es with
      | some n => nodeAt n rest
      | none => none
    | _ => none

def splitComps (p : Str) : List Str := (PathClean.splitSlash p []).filter (fun c => !c.isEmpty && c != ['.'])

/-- resolve `comps` starting in the canonical directory `base`, following every symbolic link on the
    way (relative to the link's directory; absolute targets must lie under `rootAbs`).  Returns the
    canonical path and the (non-link) node. -/
def resolve (root : Node) (rootAbs : List Str) : Nat → List Str → List Str → Option (List Str × Node)
  | 0, _, _ => none
  | fuel + 1, base, comps =>
    match comps with
    | [] => (nodeAt root base).map (base, ·)
    | c :: rest =>
      if c = ['.', '.'] then resolve root rootAbs fuel base.dropLast rest
      else
        match nodeAt root (base ++ [c]) with
        | none => none
        | some (.link target) =>
          let tc := splitComps target
          if target.head? = some '/' then
            -- absolute: must be below the scratch root
            if (tc.take rootAbs.length) = rootAbs then resolve root rootAbs fuel [] (tc.drop rootAbs.length ++ rest)
            else none
          else resolve root rootAbs fuel base (tc ++ rest)
        | some _ => resolve root rootAbs fuel (base ++ [c]) rest

def joinDisplay (d : Str) (name : Str) : Str :=
  if d = ['.'] then name else d ++ '/' :: name

/-- the walk: `display` is the path text the entries are reported under, `canon` the canonical
    directory being listed, `stack` the canonical directories currently being visited -/
def walkDir (root : Node) (rootAbs : List Str) : Nat → Str → List Str → List (List Str) → Out (List Entry)
  | 0, _, _, _ => .err 98
  | fuel + 1, display, canon, stack =>
    match nodeAt root canon with
    | some (.dir es) =>
      es.foldl (fun acc (e : Str × Node) =>
        match acc with
        | .ok sofar =>
          let disp := joinDisplay display e.1
          match resolve root rootAbs (fuel + 1) canon [e.1] with
          | none => .err 18                      -- a link that leads nowhere: walkdir reports an error
          | some (_, .file id content) => .ok (sofar ++ [{ key := disp, fileId := id, content := content }])
          | some (cpath, .dir _) =>
            -- walkdir looks for a cycle only when it follows a symbolic link
            let viaLink := match e.2 with | .link _ => true | _ => false
            if viaLink && cpath ∈ (canon :: stack) then .ok sofar   -- link cycle: skipped
            else
              match walkDir root rootAbs fuel disp cpath (canon :: stack) with
              | .ok more => .ok (sofar ++ more)
              | .err c => .err c
              | .panic s => .panic s
          | some (_, .link _) => .err 18
        | other => other) (.ok [])
    | _ => .err 18

/-- entries found under one path argument (already `clean`ed text, relative to the root) -/
def walkArg (root : Node) (rootAbs : List Str) (fuel : Nat) (arg : Str) : Out (List Entry) :=
  let cleaned := PathClean.clean arg
  match resolve root rootAbs fuel [] (splitComps cleaned) with
  | none => .err 18
  | some (_, .file id content) => .ok [{ key := cleaned, fileId := id, content := content }]
  | some (cpath, .dir _) => walkDir root rootAbs fuel cleaned cpath []
  | some (_, .link _) => .err 18

/-- `record_artifacts` (digests are taken of `content` by the caller) -/
def recordArtifacts (root : Node) (rootAbs : List Str) (fuel : Nat) (args : List Str)
    (strips : Option (List Str)) : Out (List Entry) :=
  args.foldl (fun acc arg =>
    match acc with
    | .ok sofar =>
      match walkArg root rootAbs fuel arg with
      | .ok es => insertAll sofar (es.map fun e => { e with key := applyLeftStrip e.key strips })
      | .err c => .err c
      | .panic s => .panic s
    | other => other) (.ok [])

/-! ### `in_toto_run` -/

structure RunResult (W B : Type) where
  materials : List Entry
  products : List Entry
  byproducts : B
  world : W

/-- materials are recorded before the command runs, products after it, byproducts are what the
    command produced; any failure aborts -/
def inTotoRun {W B : Type} (record : W → Out (List Entry)) (exec : W → Option (W × B)) (w0 : W) :
    Out (RunResult W B) :=
  match record w0 with
  | .ok m =>
    match exec w0 with
    | none => .err 18
    | some (w1, b) =>
      match record w1 with
      | .ok p => .ok { materials := m, products := p, byproducts := b, world := w1 }
      | .err c => .err c
      | .panic s => .panic s
  | .err c => .err c
  | .panic s => .panic s

end InToto.Record
