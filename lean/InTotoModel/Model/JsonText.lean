import InTotoModel.Model.JsonParse
/-
  Reading JSON *text* into a value, as `serde_json::from_str::<Value>` (1.0.x, default features:
  no `preserve_order`, no `arbitrary_precision`, no `float_roundtrip`) does.

  The reader is a lexer followed by a parser on tokens.  White space (space, TAB, LF, CR) only
  separates tokens; every spelling of a string (raw characters, the eight two-character escapes,
  `\uXXXX` in either hex case, surrogate pairs for characters beyond the BMP) yields the same
  `str` token; so the value read does not depend on "whitespace or escape spelling of the source
  text" — that is `Lemmas/JsonText.lean`.

  Library behaviour encoded here (validated by the `readtext` correspondence):
  * strings: raw characters from U+0020 upwards (DEL and non-BMP included), a raw control character
    is an error; escapes `\" \\ \/ \b \f \n \r \t`, `\u` + 4 hex digits; a lead surrogate must be
    followed by `\u` + a trail surrogate, a lone trail surrogate is an error;
  * numbers: `-? (0 | [1-9][0-9]*) (. [0-9]+)? ([eE] [+-]? [0-9]+)?`; without fraction and exponent
    a value in `0 … 2⁶⁴-1` or `-2⁶³ … -1` is an integer, everything else (also `-0`) becomes an `f64`
    (`JNum.nonInt`); an `f64` that would be infinite is an error.  The decimal window
    `10³⁰⁸ ≤ |x| < 10³⁰⁹`, where the verdict depends on serde_json's (not correctly rounded) float
    conversion, is not modelled: there the reader answers `nonInt` and the correspondence check does
    not generate such numerals;
  * nesting: the 128th open array / object is an error (recursion limit);
  * the whole text must be one value, surrounded by optional white space.
-/
namespace InToto.JsonText
open InToto InToto.Json

inductive Tok where
  | lbrack | rbrack | lbrace | rbrace | comma | colon
  | str (s : Str)
  | num (n : JNum)
  | null | tru | fals
  deriving DecidableEq, Repr

def isWs (c : Char) : Bool := c = ' ' || c = '\t' || c = '\n' || c = '\r'

def hex4 (a b c d : Char) : Option Nat :=
  match hexValC a, hexValC b, hexValC c, hexValC d with
  | some a, some b, some c, some d => some (a * 4096 + b * 256 + c * 16 + d)
  | _, _, _, _ => none

/-- The character a two-character escape `\e` stands for. -/
def unescape (e : Char) : Option Char :=
  if e = '"' then some '"' else if e = '\\' then some '\\' else if e = '/' then some '/'
  else if e = 'b' then some (Char.ofNat 8) else if e = 'f' then some (Char.ofNat 12)
  else if e = 'n' then some (Char.ofNat 10) else if e = 'r' then some (Char.ofNat 13)
  else if e = 't' then some (Char.ofNat 9) else none

/-- After `\u`: four hex digits; a lead surrogate needs `\u` + a trail surrogate right after it.
    Returns the character and the unread rest. -/
def lexUnicode (r : Str) : Option (Char × Str) :=
  match r with
  | a :: b :: c :: d :: r1 =>
    match hex4 a b c d with
    | none => none
    | some n =>
      if n < 0xD800 ∨ 0xDFFF < n then some (Char.ofNat n, r1)
      else if n ≤ 0xDBFF then
        match r1 with
        | bs :: u :: a2 :: b2 :: c2 :: d2 :: r2 =>
          if bs = '\\' ∧ u = 'u' then
            match hex4 a2 b2 c2 d2 with
            | some m =>
              if 0xDC00 ≤ m ∧ m ≤ 0xDFFF then
                some (Char.ofNat (0x10000 + (n - 0xD800) * 0x400 + (m - 0xDC00)), r2)
              else none
            | none => none
          else none
        | _ => none
      else none
  | _ => none

/-- String body after the opening quote; `acc` is reversed.  Fuel: one unit per character read. -/
def lexStr : Nat → Str → Str → Option (Str × Str)
  | 0, _, _ => none
  | _ + 1, [], _ => none
  | f + 1, c :: r, acc =>
    if c = '"' then some (acc.reverse, r)
    else if c = '\\' then
      match r with
      | [] => none
      | e :: r1 =>
        if e = 'u' then
          match lexUnicode r1 with
          | some (ch, r2) => lexStr f r2 (ch :: acc)
          | none => none
        else
          match unescape e with
          | some ch => lexStr f r1 (ch :: acc)
          | none => none
    else if c.toNat < 32 then none
    else lexStr f r (c :: acc)

/-- Longest prefix of ASCII digits, and the rest. -/
def spanDigits : Str → Str × Str
  | [] => ([], [])
  | c :: cs => if isDigitC c then (c :: (spanDigits cs).1, (spanDigits cs).2) else ([], c :: cs)

def digitsNat : Str → Nat → Nat
  | [], acc => acc
  | c :: cs, acc => digitsNat cs (acc * 10 + (c.toNat - 48))

def stripZeros : Str → Str
  | '0' :: r => stripZeros r
  | s => s

/-- Verdict on a numeral that serde_json holds as `f64`: `none` = "number out of range". -/
def floatVerdict (mantissa : Str) (exp10 : Int) : Option JNum :=
  let m := stripZeros mantissa
  if m.isEmpty then some .nonInt
  else if (m.length : Int) + exp10 > 309 then none
  else some .nonInt

def lexSign (s : Str) : Bool × Str :=
  match s with
  | '-' :: r => (true, r)
  | _ => (false, s)

/-- `0`, or a non-zero digit followed by digits; a digit after a leading `0` is an error. -/
def lexIntPart (s : Str) : Option (Str × Str) :=
  match s with
  | [] => none
  | c :: r =>
    if c = '0' then
      match r with
      | d :: _ => if isDigitC d then none else some (['0'], r)
      | [] => some (['0'], r)
    else if isDigitC c then some (spanDigits (c :: r))
    else none

/-- optional fraction: `.` and at least one digit -/
def lexFrac (s : Str) : Option (Option Str × Str) :=
  match s with
  | c :: r =>
    if c = '.' then
      if (spanDigits r).1.isEmpty then none else some (some (spanDigits r).1, (spanDigits r).2)
    else some (none, s)
  | [] => some (none, s)

def lexExpSign (s : Str) : Bool × Str :=
  match s with
  | c :: r => if c = '+' then (false, r) else if c = '-' then (true, r) else (false, s)
  | [] => (false, s)

/-- optional exponent: `e` or `E`, an optional sign, at least one digit -/
def lexExp (s : Str) : Option (Option Int × Str) :=
  match s with
  | c :: r =>
    if c = 'e' ∨ c = 'E' then
      let p := spanDigits (lexExpSign r).2
      if p.1.isEmpty then none
      else some (some (if (lexExpSign r).1 then -(digitsNat p.1 0 : Int) else (digitsNat p.1 0 : Int)), p.2)
    else some (none, s)
  | [] => some (none, s)

/-- integer (`u64` / negative `i64`) or `f64` -/
def classify (neg : Bool) (ds : Str) (fs : Option Str) (ex : Option Int) : Option JNum :=
  match fs, ex with
  | none, none =>
    let n := digitsNat ds 0
    if !neg then
      if n < 2 ^ 64 then some (.int n) else floatVerdict ds 0
    else if n = 0 then some .nonInt
    else if n ≤ 2 ^ 63 then some (.int (-(n : Int)))
    else floatVerdict ds 0
  | _, _ =>
    let f := fs.getD []
    floatVerdict (ds ++ f) (ex.getD 0 - f.length)

/-- A number token at the head of `s` (which starts with `-` or a digit). -/
def lexNum (s : Str) : Option (JNum × Str) :=
  match lexIntPart (lexSign s).2 with
  | none => none
  | some (ds, r1) =>
    match lexFrac r1 with
    | none => none
    | some (fs, r2) =>
      match lexExp r2 with
      | none => none
      | some (ex, r3) =>
        match classify (lexSign s).1 ds fs ex with
        | none => none
        | some n => some (n, r3)

/-- `r` without the prefix `p`, if it has it. -/
def dropPrefix : Str → Str → Option Str
  | [], r => some r
  | p :: ps, c :: r => if p = c then dropPrefix ps r else none
  | _ :: _, [] => none

/-- The lexer.  Fuel: one unit per token or white-space character. -/
def lex : Nat → Str → Option (List Tok)
  | 0, _ => none
  | _ + 1, [] => some []
  | f + 1, c :: r =>
    if isWs c then lex f r
    else if c = '[' then (lex f r).map (.lbrack :: ·)
    else if c = ']' then (lex f r).map (.rbrack :: ·)
    else if c = '{' then (lex f r).map (.lbrace :: ·)
    else if c = '}' then (lex f r).map (.rbrace :: ·)
    else if c = ',' then (lex f r).map (.comma :: ·)
    else if c = ':' then (lex f r).map (.colon :: ·)
    else if c = '"' then
      match lexStr (r.length + 1) r [] with
      | some (s, r') => (lex f r').map (.str s :: ·)
      | none => none
    else if c = 'n' then
      match dropPrefix ['u', 'l', 'l'] r with
      | some r' => (lex f r').map (.null :: ·)
      | none => none
    else if c = 't' then
      match dropPrefix ['r', 'u', 'e'] r with
      | some r' => (lex f r').map (.tru :: ·)
      | none => none
    else if c = 'f' then
      match dropPrefix ['a', 'l', 's', 'e'] r with
      | some r' => (lex f r').map (.fals :: ·)
      | none => none
    else if c = '-' ∨ isDigitC c then
      match lexNum (c :: r) with
      | some (n, r') => (lex f r').map (.num n :: ·)
      | none => none
    else none

/- The parser on tokens.  `d` = serde_json's `remaining_depth`; fuel: one unit per value / element /
   member. -/
mutual
def pValue : Nat → Nat → List Tok → Option (JV × List Tok)
  | 0, _, _ => none
  | f + 1, d, ts =>
    match ts with
    | .null :: r => some (.null, r)
    | .tru :: r => some (.bool true, r)
    | .fals :: r => some (.bool false, r)
    | .str s :: r => some (.str s, r)
    | .num n :: r => some (.num n, r)
    | .lbrack :: r =>
      if d ≤ 1 then none
      else
        match r with
        | .rbrack :: r' => some (.arr [], r')
        | _ =>
          match pValue f (d - 1) r with
          | some (x, r1) =>
            match pElems f (d - 1) r1 with
            | some (xs, r2) => some (.arr (x :: xs), r2)
            | none => none
          | none => none
    | .lbrace :: r =>
      if d ≤ 1 then none
      else
        match r with
        | .rbrace :: r' => some (.obj [], r')
        | .str k :: .colon :: r0 =>
          match pValue f (d - 1) r0 with
          | some (v, r1) =>
            match pMembers f (d - 1) r1 with
            | some (kvs, r2) => some (.obj ((k, v) :: kvs), r2)
            | none => none
          | none => none
        | _ => none
    | _ => none
def pElems : Nat → Nat → List Tok → Option (List JV × List Tok)
  | 0, _, _ => none
  | f + 1, d, ts =>
    match ts with
    | .rbrack :: r => some ([], r)
    | .comma :: r =>
      match pValue f d r with
      | some (x, r1) =>
        match pElems f d r1 with
        | some (xs, r2) => some (x :: xs, r2)
        | none => none
      | none => none
    | _ => none
def pMembers : Nat → Nat → List Tok → Option (List (Str × JV) × List Tok)
  | 0, _, _ => none
  | f + 1, d, ts =>
    match ts with
    | .rbrace :: r => some ([], r)
    | .comma :: .str k :: .colon :: r =>
      match pValue f d r with
      | some (v, r1) =>
        match pMembers f d r1 with
        | some (kvs, r2) => some ((k, v) :: kvs, r2)
        | none => none
      | none => none
    | _ => none
end

def parseToks (ts : List Tok) : Option JV :=
  match pValue (ts.length + 1) 128 ts with
  | some (v, []) => some v
  | _ => none

/-- `serde_json::from_str::<Value>` (objects in source order; `Json.norm` gives the `BTreeMap` view). -/
def readText (t : Str) : Option JV :=
  match lex (t.length + 1) t with
  | some ts => parseToks ts
  | none => none

end InToto.JsonText
