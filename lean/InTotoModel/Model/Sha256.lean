import InTotoModel.Model.Md
/-
  SHA-256 (FIPS 180-4), executable.  An independent implementation used by the driver to recompute
  key ids and file digests.  Its compression function is not the subject of any theorem (collision
  resistance is an assumption where a theorem speaks about "distinct keys have distinct ids"); the
  iteration over blocks is `Model/Md.lean`, whose streaming theorem applies to it.
-/
namespace InToto.Sha256

def K : Array UInt32 := #[
  0x428a2f98, 0x71374491, 0xb5c0fbcf, 0xe9b5dba5, 0x3956c25b, 0x59f111f1, 0x923f82a4, 0xab1c5ed5,
  0xd807aa98, 0x12835b01, 0x243185be, 0x550c7dc3, 0x72be5d74, 0x80deb1fe, 0x9bdc06a7, 0xc19bf174,
  0xe49b69c1, 0xefbe4786, 0x0fc19dc6, 0x240ca1cc, 0x2de92c6f, 0x4a7484aa, 0x5cb0a9dc, 0x76f988da,
  0x983e5152, 0xa831c66d, 0xb00327c8, 0xbf597fc7, 0xc6e00bf3, 0xd5a79147, 0x06ca6351, 0x14292967,
  0x27b70a85, 0x2e1b2138, 0x4d2c6dfc, 0x53380d13, 0x650a7354, 0x766a0abb, 0x81c2c92e, 0x92722c85,
  0xa2bfe8a1, 0xa81a664b, 0xc24b8b70, 0xc76c51a3, 0xd192e819, 0xd6990624, 0xf40e3585, 0x106aa070,
  0x19a4c116, 0x1e376c08, 0x2748774c, 0x34b0bcb5, 0x391c0cb3, 0x4ed8aa4a, 0x5b9cca4f, 0x682e6ff3,
  0x748f82ee, 0x78a5636f, 0x84c87814, 0x8cc70208, 0x90befffa, 0xa4506ceb, 0xbef9a3f7, 0xc67178f2]

/-- the chaining value: eight words -/
structure W8 where
  a : UInt32
  b : UInt32
  c : UInt32
  d : UInt32
  e : UInt32
  f : UInt32
  g : UInt32
  h : UInt32
  deriving DecidableEq, Repr

def H0 : W8 := ⟨0x6a09e667, 0xbb67ae85, 0x3c6ef372, 0xa54ff53a, 0x510e527f, 0x9b05688c, 0x1f83d9ab, 0x5be0cd19⟩

@[inline] def rotr (x : UInt32) (n : UInt32) : UInt32 := (x >>> n) ||| (x <<< (32 - n))

def pad (msg : Bytes) : Bytes :=
  let len := msg.length
  let zeros := (119 - len % 64) % 64
  let bitLen := len * 8
  msg ++ [(0x80 : UInt8)] ++ List.replicate zeros (0 : UInt8) ++
    ((List.range 8).map fun i => UInt8.ofNat (bitLen >>> (8 * (7 - i)) % 256))

def word (b : Array UInt8) (i : Nat) : UInt32 :=
  (b[i]!.toUInt32 <<< 24) ||| (b[i + 1]!.toUInt32 <<< 16) ||| (b[i + 2]!.toUInt32 <<< 8) ||| b[i + 3]!.toUInt32

def compress (h : W8) (block : Array UInt8) : W8 := Id.run do
  let mut w : Array UInt32 := Array.replicate 64 0
  for t in [0:16] do
    w := w.set! t (word block (4 * t))
  for t in [16:64] do
    let s0 := rotr w[t - 15]! 7 ^^^ rotr w[t - 15]! 18 ^^^ (w[t - 15]! >>> 3)
    let s1 := rotr w[t - 2]! 17 ^^^ rotr w[t - 2]! 19 ^^^ (w[t - 2]! >>> 10)
    w := w.set! t (w[t - 16]! + s0 + w[t - 7]! + s1)
  let mut a := h.a
  let mut b := h.b
  let mut c := h.c
  let mut d := h.d
  let mut e := h.e
  let mut f := h.f
  let mut g := h.g
  let mut hh := h.h
  for t in [0:64] do
    let S1 := rotr e 6 ^^^ rotr e 11 ^^^ rotr e 25
    let ch := (e &&& f) ^^^ ((~~~ e) &&& g)
    let t1 := hh + S1 + ch + K[t]! + w[t]!
    let S0 := rotr a 2 ^^^ rotr a 13 ^^^ rotr a 22
    let maj := (a &&& b) ^^^ (a &&& c) ^^^ (b &&& c)
    let t2 := S0 + maj
    hh := g
    g := f
    f := e
    e := d + t1
    d := c
    c := b
    b := a
    a := t1 + t2
  return ⟨h.a + a, h.b + b, h.c + c, h.d + d, h.e + e, h.f + f, h.g + g, h.h + hh⟩

/-- the padding appended to a message of `len` bytes -/
def padTail (len : Nat) : Bytes :=
  [(0x80 : UInt8)] ++ List.replicate ((119 - len % 64) % 64) (0 : UInt8) ++
    ((List.range 8).map fun i => UInt8.ofNat ((len * 8) >>> (8 * (7 - i)) % 256))

def beBytes (x : UInt32) : Bytes := [(x >>> 24).toUInt8, (x >>> 16).toUInt8, (x >>> 8).toUInt8, x.toUInt8]

def outBytes (s : W8) : Bytes :=
  beBytes s.a ++ beBytes s.b ++ beBytes s.c ++ beBytes s.d ++ beBytes s.e ++ beBytes s.f ++ beBytes s.g ++ beBytes s.h

/-- SHA-256 as an iterated hash (`Model/Md.lean`) -/
def alg : Md.Alg W8 :=
  { block := 64, init := H0, compress := fun h b => compress h b.toArray, padTail := padTail, out := outBytes }

def hash (msg : Bytes) : Bytes := alg.hash msg

/-- a digest has 32 bytes -/
theorem hash_length (msg : Bytes) : (hash msg).length = 32 := rfl

end InToto.Sha256
