import InTotoModel.Model.Basic
/-
  Iterated (Merkle-Damgard) hashes and their *streaming* use in `calculate_hashes`
  (`src/crypto.rs`): a context per requested algorithm, the input read into a 1024-byte buffer and
  every chunk handed to every context, `finish` at the end.

  `Alg`        — block size, initial state, compression of one block, padding for a message length,
                 output conversion (SHA-256: `Model/Sha256.lean`, SHA-512: `Model/Sha512.lean`);
  `Alg.hash`   — the one-shot digest: compress the blocks of `msg ++ pad |msg|`;
  `Ctx`, `start`, `update`, `finish` — the incremental interface (ring's `digest::Context`): the
                 state after the complete blocks seen so far, the pending bytes of an incomplete
                 block, the number of bytes seen;
  `calcHashes` — the loop of `calculate_hashes` over what the successive `read` calls returned.

  `Lemmas/Md.lean` proves that the streamed digest is the one-shot digest of the concatenation for
  every way the reader cuts the input.
-/
namespace InToto.Md

structure Alg (S : Type) where
  block : Nat
  init : S
  compress : S → Bytes → S
  padTail : Nat → Bytes
  out : S → Bytes

variable {S : Type}

/-- compress the complete blocks of `d`, in order (an incomplete last block is left alone) -/
def Alg.blocks (A : Alg S) (s : S) (d : Bytes) : S :=
  if _h : 0 < A.block ∧ A.block ≤ d.length then A.blocks (A.compress s (d.take A.block)) (d.drop A.block) else s
termination_by d.length
decreasing_by simp only [List.length_drop]; omega

/-- the digest of a whole message -/
def Alg.hash (A : Alg S) (msg : Bytes) : Bytes := A.out (A.blocks A.init (msg ++ A.padTail msg.length))

structure Ctx (S : Type) where
  st : S
  pending : Bytes
  len : Nat

def Alg.start (A : Alg S) : Ctx S := { st := A.init, pending := [], len := 0 }

/-- `Context::update`: complete blocks are compressed at once, the rest is kept -/
def Alg.update (A : Alg S) (c : Ctx S) (data : Bytes) : Ctx S :=
  let all := c.pending ++ data
  let n := all.length / A.block * A.block
  { st := A.blocks c.st (all.take n), pending := all.drop n, len := c.len + data.length }

/-- `Context::finish` -/
def Alg.finish (A : Alg S) (c : Ctx S) : Bytes := A.out (A.blocks c.st (c.pending ++ A.padTail c.len))

/-! ### the loop of `calculate_hashes` -/

/-- what one `read(&mut buf)` call returned: the bytes placed in the buffer (none = end of input), or an error -/
inductive ReadRes where
  | data (b : Bytes)
  | error
  deriving Repr

/-- the loop for one context: `(size, context)`, or `none` when a read failed -/
def readLoop (A : Alg S) : List ReadRes → Nat → Ctx S → Option (Nat × Ctx S)
  | [], size, c => some (size, c)                       -- (a reader that stops answering: treated as end of input)
  | .error :: _, _, _ => none
  | .data b :: rest, size, c =>
    if b.isEmpty then some (size, c)                    -- `Ok(0)`: end of input, whatever might follow
    else readLoop A rest (size + b.length) (A.update c b)

/-- `calculate_hashes` for one requested algorithm: size and digest -/
def calcHash (A : Alg S) (reads : List ReadRes) : Option (Nat × Bytes) :=
  (readLoop A reads 0 A.start).map fun p => (p.1, A.finish p.2)

end InToto.Md
