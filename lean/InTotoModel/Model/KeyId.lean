import InTotoModel.Model.Signed
import InTotoModel.Model.Sha256
/-
  Key descriptions, key ids and SubjectPublicKeyInfo (src/crypto.rs: `calculate_key_id`,
  `shim_public_key`, `write_spki`, `from_spki_with_keyid_hash_algorithms`, hex helpers).

  A key is described by (type, scheme, hash-algorithm list, material).  Its id is
      hex(sha256(utf8(signedText(shimJson description))))
  where `shimJson` is the JSON the repo's `shims::PublicKey` serialises to (without `keyid`, without
  `private`): the material is lower-case hex for ed25519/ecdsa and the PEM of the SPKI for rsa.
  DER (derp 0.0.15) and PEM/base64 (pem 3) are library behaviour modelled at specification level.
-/
namespace InToto.KeyId
open InToto InToto.Json

inductive KeyType where
  | ed25519
  | rsa
  | ecdsa
  deriving DecidableEq, Repr

structure KeyDesc where
  typ : KeyType
  scheme : Str
  hashAlgs : Option (List Str)
  material : Bytes
  deriving DecidableEq, Repr

/-! ### hex (`data_encoding::HEXLOWER`) -/

def hexNibble (n : Nat) : Char := if n < 10 then Char.ofNat (48 + n) else Char.ofNat (87 + n)

def hexEncode : Bytes → Str
  | [] => []
  | b :: r => hexNibble (b.toNat / 16) :: hexNibble (b.toNat % 16) :: hexEncode r

def hexVal (c : Char) : Option Nat :=
  if 48 ≤ c.toNat && c.toNat ≤ 57 then some (c.toNat - 48)
  else if 97 ≤ c.toNat && c.toNat ≤ 102 then some (c.toNat - 87)
  else none

def hexDecode : Str → Option Bytes
  | [] => some []
  | [_] => none
  | a :: b :: r =>
    match hexVal a, hexVal b, hexDecode r with
    | some x, some y, some rest => some (UInt8.ofNat (x * 16 + y) :: rest)
    | _, _, _ => none

/-! ### base64 (standard alphabet, padded) and PEM -/

def b64Char (n : Nat) : Char :=
  if n < 26 then Char.ofNat (65 + n)
  else if n < 52 then Char.ofNat (97 + (n - 26))
  else if n < 62 then Char.ofNat (48 + (n - 52))
  else if n = 62 then '+' else '/'

def base64 : Bytes → Str
  | [] => []
  | [a] => [b64Char (a.toNat / 4), b64Char (a.toNat % 4 * 16), '=', '=']
  | [a, b] => [b64Char (a.toNat / 4), b64Char (a.toNat % 4 * 16 + b.toNat / 16), b64Char (b.toNat % 16 * 4), '=']
  | a :: b :: c :: r =>
    b64Char (a.toNat / 4) :: b64Char (a.toNat % 4 * 16 + b.toNat / 16)
      :: b64Char (b.toNat % 16 * 4 + c.toNat / 64) :: b64Char (c.toNat % 64) :: base64 r

/-- lines of at most 64 characters joined by LF (the `pem` crate emits CRLF or LF depending on its
    configuration; the repo normalises to LF and trims) -/
def wrap64 (fuel : Nat) (s : Str) : Str :=
  match fuel with
  | 0 => s
  | f + 1 => if s.length ≤ 64 then s else s.take 64 ++ '\n' :: wrap64 f (s.drop 64)

def pemPublicKey (der : Bytes) : Str :=
  let body := base64 der
  "-----BEGIN PUBLIC KEY-----\n".toList ++ wrap64 body.length body ++ "\n-----END PUBLIC KEY-----".toList

/-! ### DER -/

def beBytes (fuel n : Nat) : Bytes :=
  match fuel with
  | 0 => []
  | f + 1 => if n = 0 then [] else beBytes f (n / 256) ++ [UInt8.ofNat (n % 256)]

/-- `Der::write_len` -/
def derLen (n : Nat) : Bytes :=
  if n < 128 then [UInt8.ofNat n]
  else
    let bs := beBytes 8 n
    UInt8.ofNat (0x80 + bs.length) :: bs

def tlv (tag : UInt8) (content : Bytes) : Bytes := tag :: (derLen content.length ++ content)

def oidRsa : Bytes := [0x2a, 0x86, 0x48, 0x86, 0xf7, 0x0d, 0x01, 0x01, 0x01]
def oidEd25519 : Bytes := [0x2b, 0x65, 0x70]
def oidEc : Bytes := [0x2a, 0x86, 0x48, 0xce, 0x3d, 0x02, 0x01]
def oidP256 : Bytes := [0x2a, 0x86, 0x48, 0xce, 0x3d, 0x03, 0x01, 0x07]

def algId : KeyType → Bytes
  | .rsa => tlv 0x06 oidRsa ++ [0x05, 0x00]
  | .ed25519 => tlv 0x06 oidEd25519
  | .ecdsa => tlv 0x06 oidEc ++ tlv 0x06 oidP256

/-- `write_spki` -/
def spkiEncode (t : KeyType) (pub : Bytes) : Bytes :=
  tlv 0x30 (tlv 0x30 (algId t) ++ tlv 0x03 (0 :: pub))

/-- `derp::read_tag_and_get_value`: (tag, content, rest) -/
def readTlv : Bytes → Option (UInt8 × Bytes × Bytes)
  | tag :: l :: r =>
    if tag.toNat % 32 = 31 then none
    else if l.toNat < 128 then
      if r.length < l.toNat then none else some (tag, r.take l.toNat, r.drop l.toNat)
    else if l = 0x81 then
      match r with
      | n :: r' => if n.toNat < 128 then none else if r'.length < n.toNat then none else some (tag, r'.take n.toNat, r'.drop n.toNat)
      | _ => none
    else if l = 0x82 then
      match r with
      | a :: b :: r' =>
        let n := a.toNat * 256 + b.toNat
        if n < 256 then none else if r'.length < n then none else some (tag, r'.take n, r'.drop n)
      | _ => none
    else none
  | _ => none

def typeOfOid (o : Bytes) : Option KeyType :=
  if o = oidRsa then some .rsa else if o = oidEd25519 then some .ed25519 else if o = oidEc then some .ecdsa else none

/-- `from_spki_with_keyid_hash_algorithms` (DER part): key type and raw key material -/
def spkiDecode (der : Bytes) : Option (KeyType × Bytes) :=
  match readTlv der with
  | some (0x30, outer, []) =>
    match readTlv outer with
    | some (0x30, alg, rest) =>
      match readTlv alg with
      | some (0x06, oid, params) =>
        match typeOfOid oid with
        | none => none
        | some t =>
          let paramsOk : Bool := match t with
            | .ecdsa => match readTlv params with
              | some (0x06, curve, []) => curve = oidP256
              | _ => false
            | .ed25519 => params = [] || (match readTlv params with | some (0x05, _, []) => true | _ => false)
            | .rsa => match readTlv params with
              | some (0x05, _, []) => true
              | _ => false
          if !paramsOk then none else
          match readTlv rest with
          | some (0x03, 0 :: bits, []) => some (t, bits)
          | _ => none
      | _ => none
    | _ => none
  | _ => none

/-! ### key id -/

def typeName : KeyType → Str
  | .ed25519 => "ed25519".toList
  | .rsa => "rsa".toList
  | .ecdsa => "ecdsa".toList

def publicText (d : KeyDesc) : Str :=
  match d.typ with
  | .rsa => pemPublicKey (spkiEncode .rsa d.material)
  | _ => hexEncode d.material

/-- what `shims::PublicKey` serialises to for the key-id computation (no `keyid`, no `private`) -/
def shimJson (d : KeyDesc) : JV :=
  .obj ([("keytype".toList, .str (typeName d.typ)), ("scheme".toList, .str d.scheme)]
    ++ (match d.hashAlgs with | some l => [("keyid_hash_algorithms".toList, .arr (l.map .str))] | none => [])
    ++ [("keyval".toList, .obj [("public".toList, .str (publicText d))])])

/-- the full wire form of a key (`impl Serialize for PublicKey`): with its id and `"private": ""` -/
def keyJson (d : KeyDesc) (kid : Str) : JV :=
  .obj ([("keytype".toList, .str (typeName d.typ)), ("scheme".toList, .str d.scheme)]
    ++ (match d.hashAlgs with | some l => [("keyid_hash_algorithms".toList, .arr (l.map .str))] | none => [])
    ++ [("keyval".toList, .obj [("public".toList, .str (publicText d)), ("private".toList, .str [])]),
        ("keyid".toList, .str kid)])

/-- `calculate_key_id`, generic in the hash (instantiated with `Sha256.hash` by the driver) -/
def keyIdWith (H : Bytes → Bytes) (utf8 : Str → Bytes) (d : KeyDesc) : Option Str :=
  match signedText (shimJson d) with
  | .ok t => some (hexEncode (H (utf8 t)))
  | _ => none

/-- `Layout::try_into`: entries filed under an id that is not the key's own are dropped -/
def filterKeyTable {K : Type} (kidOf : K → Str) (table : List (Str × K)) : List (Str × K) :=
  table.filter fun e => e.1 = kidOf e.2

end InToto.KeyId
