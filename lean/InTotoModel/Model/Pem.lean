import InTotoModel.Model.KeyId
/-
  Reading PEM text, as the `pem` crate (3.0.6) with `base64` 0.22 (`STANDARD`: canonical padding,
  no trailing bits) does, and as `impl Deserialize for PublicKey` uses it for RSA keys
  (`pem::parse(public)` → contents → SubjectPublicKeyInfo).  The writer is `KeyId.pemPublicKey`.

  Library behaviour encoded here (validated by the `pem_dec` correspondence):
  * `read_until(marker)`: a left-to-right scan that counts matched marker characters and, on a
    mismatch, resets the count *without* looking at the current character again;
  * a block is `-----BEGIN <tag>-----`, white space, payload, `-----END <tag'>-----`, with non-empty
    and equal tags; anything before `-----BEGIN ` and after the block is ignored;
  * the payload is split at the first blank line (`\n\n`, else `\r\n\r\n`) into headers and data; every
    header line must contain a `:`;
  * the data, with every Unicode white-space character removed, must be canonical base64: the
    standard alphabet, a multiple of four characters, `=` only as the last one or two characters, and
    zero bits where the last symbol carries unused ones.
-/
namespace InToto.Pem
open InToto InToto.KeyId

/-- `pem::parser::read_until`: `(remaining, matched)`. `found` = marker characters matched so far,
    `seen` = characters consumed so far (reversed). -/
def readUntilGo (marker : Str) : Str → Nat → Str → Option (Str × Str)
  | [], _, _ => none
  | c :: rest, found, seen =>
    if (c :: rest).length < marker.length - found then none
    else
      let found' := if marker[found]? = some c then found + 1 else 0
      if found' = marker.length then some (rest, (seen.reverse ++ [c]).take (seen.length + 1 - found'))
      else readUntilGo marker rest found' (c :: seen)

def readUntil (marker input : Str) : Option (Str × Str) :=
  if marker.isEmpty then some ([], input) else readUntilGo marker input 0 []

def isPemWs (c : Char) : Bool := c = ' ' || c = '\t' || c = '\n' || c = '\r'

def skipWs : Str → Str
  | c :: r => if isPemWs c then skipWs r else c :: r
  | [] => []

/-- `char::is_whitespace` (Unicode `White_Space`) -/
def isUniWs (c : Char) : Bool :=
  let n := c.toNat
  (9 ≤ n && n ≤ 13) || n = 32 || n = 0x85 || n = 0xA0 || n = 0x1680 || (0x2000 ≤ n && n ≤ 0x200A) ||
    n = 0x2028 || n = 0x2029 || n = 0x202F || n = 0x205F || n = 0x3000

def b64Val (c : Char) : Option Nat :=
  let n := c.toNat
  if 65 ≤ n ∧ n ≤ 90 then some (n - 65)
  else if 97 ≤ n ∧ n ≤ 122 then some (n - 71)
  else if 48 ≤ n ∧ n ≤ 57 then some (n + 4)
  else if c = '+' then some 62
  else if c = '/' then some 63
  else none

/-- canonical base64 (`general_purpose::STANDARD.decode`): groups of four symbols; `=` only as the
    last one or two characters of the text, and then the unused low bits must be zero -/
def b64Decode : Str → Option Bytes
  | [] => some []
  | a :: b :: c :: d :: rest =>
    if rest = [] ∧ c = '=' ∧ d = '=' then
      match b64Val a, b64Val b with
      | some x, some y => if y % 16 = 0 then some [UInt8.ofNat (x * 4 + y / 16)] else none
      | _, _ => none
    else if rest = [] ∧ d = '=' then
      match b64Val a, b64Val b, b64Val c with
      | some x, some y, some z =>
        if z % 4 = 0 then some [UInt8.ofNat (x * 4 + y / 16), UInt8.ofNat (y % 16 * 16 + z / 4)] else none
      | _, _, _ => none
    else
      match b64Val a, b64Val b, b64Val c, b64Val d, b64Decode rest with
      | some x, some y, some z, some w, some tail =>
        some (UInt8.ofNat (x * 4 + y / 16) :: UInt8.ofNat (y % 16 * 16 + z / 4) :: UInt8.ofNat (z % 4 * 64 + w) :: tail)
      | _, _, _, _, _ => none
  | _ => none

/-- split a text at the first occurrence of `sep` (plain substring search) -/
def splitAt (sep : Str) : Str → Str → Option (Str × Str)
  | [], _ => none
  | c :: rest, seen =>
    if sep.isPrefixOf (c :: rest) then some (seen.reverse, (c :: rest).drop sep.length)
    else splitAt sep rest (c :: seen)

def linesOf (s : Str) : List Str :=
  -- `str::lines`: split at `\n`, a trailing `\r` of a line removed, no final empty line
  let rec go : Str → Str → List Str
    | [], cur => if cur.isEmpty then [] else [cur.reverse]
    | c :: r, cur =>
      if c = '\n' then (match cur with | '\r' :: t => t.reverse | _ => cur.reverse) :: go r []
      else go r (c :: cur)
  go s []

/-- `pem::parse`: the contents of the first block -/
def parse (input : Str) : Option (Str × Bytes) :=
  match readUntil "-----BEGIN ".toList input with
  | none => none
  | some (r1, _) =>
    match readUntil "-----".toList r1 with
    | none => none
    | some (r2, tag) =>
      match readUntil "-----END ".toList (skipWs r2) with
      | none => none
      | some (r3, payload) =>
        match readUntil "-----".toList r3 with
        | none => none
        | some (_, tagEnd) =>
          if tag.isEmpty ∨ tagEnd.isEmpty ∨ tag ≠ tagEnd then none
          else
            let (headers, data) :=
              match splitAt "\n\n".toList payload [] with
              | some (h, d) => (h, d)
              | none =>
                match splitAt "\r\n\r\n".toList payload [] with
                | some (h, d) => (h, d)
                | none => ([], payload)
            match b64Decode (data.filter fun c => !isUniWs c) with
            | none => none
            | some contents =>
              if (linesOf headers).all (fun l => l.contains ':') then some (tag, contents) else none

end InToto.Pem
