import InTotoModel.Model.Decimal
/-
  Model of `src/models/envelope/pae_v1.rs` (DSSE v1 pre-authentication encoding).

  `pack t p`   mirrors `PaeV1::pae_pack(payload_ver, payload)`; `t` is the UTF-8 byte string of
               the type (`String::len` is a byte length).
  `unpack`     mirrors `PaeV1::pae_unpack`: prefix strip, `consume_load_len` (= `splitn(2, ' ')`,
               `from_utf8` + `parse::<usize>`, second piece must exist), slice of the type,
               `str::from_utf8` of it, slice past the separator (which is *not* inspected),
               second `consume_load_len`, slice of the payload; trailing bytes are ignored.
  `utf8ok`     is `str::from_utf8(..).is_ok()`; a parameter here, instantiated with an executable
               validator by the driver.
  Every slice is guarded; `sliceFail` is what an out-of-range slice yields in the Rust code.
-/
namespace InToto.Pae

def pfx : Bytes := [68, 83, 83, 69, 118, 49, 32]   -- "DSSEv1 "

def SP : UInt8 := 32

def pack (t p : Bytes) : Bytes :=
  pfx ++ (toDec t.length ++ (SP :: (t ++ (SP :: (toDec p.length ++ (SP :: p))))))

def stripPrefix : Bytes → Bytes → Option Bytes
  | [], bs => some bs
  | _ :: _, [] => none
  | a :: as, b :: bs => if a = b then stripPrefix as bs else none

/-- `consume_load_len`. -/
def consumeLoadLen (raw : Bytes) : Out (Nat × Bytes) :=
  match parseUsize (raw.takeWhile (· != SP)) with
  | none => .err 0
  | some n =>
    match raw.dropWhile (· != SP) with
    | [] => .err 0
    | _ :: next => .ok (n, next)

/-- Outcome of a range that does not fit the slice: the code uses `get(..)` and returns
    `PAEParseFailed` (after the `fix:` commit; it used to be an index panic). -/
def sliceFail {α : Type} (_site : Nat) : Out α := .err 0

def unpack (utf8ok : Bytes → Bool) (bs : Bytes) : Out (Bytes × Bytes) :=
  match stripPrefix pfx bs with
  | none => .err 0
  | some raw =>
    match consumeLoadLen raw with
    | .err c => .err c
    | .panic s => .panic s
    | .ok (tl, raw1) =>
      if raw1.length < tl then sliceFail 1 else
      let t := raw1.take tl
      if !utf8ok t then .err 0 else
      if raw1.length < tl + 1 then sliceFail 2 else
      match consumeLoadLen (raw1.drop (tl + 1)) with
      | .err c => .err c
      | .panic s => .panic s
      | .ok (pl, raw2) =>
        if raw2.length < pl then sliceFail 3 else
        .ok (raw2.take pl, t)

end InToto.Pae
