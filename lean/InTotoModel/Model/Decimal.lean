import InTotoModel.Model.Basic
/-
  Decimal rendering and `usize::from_str` (64-bit target).

  * `toDec n`      = Rust `format!("{}", n)` for an unsigned integer, as ASCII bytes.
  * `parseUsize s` = Rust `str::parse::<usize>()` on ASCII bytes: optional leading `+`,
    at least one ASCII digit, only ASCII digits, value `< 2^64`; anything else is an error.
    (The Rust parser checks overflow digit by digit; partial values are monotone, so that is
    the same as checking the final value.)
-/
namespace InToto

def digitByte (d : Nat) : UInt8 := UInt8.ofNat (48 + d)

def toDec (n : Nat) : Bytes :=
  if _h : n < 10 then [digitByte n] else toDec (n / 10) ++ [digitByte (n % 10)]
termination_by n
decreasing_by omega

def isDigitByte (b : UInt8) : Bool := 48 ≤ b.toNat && b.toNat ≤ 57

/-- Left fold of ASCII digits; `none` on a non-digit. -/
def foldDigits : Bytes → Nat → Option Nat
  | [], acc => some acc
  | b :: bs, acc => if isDigitByte b then foldDigits bs (acc * 10 + (b.toNat - 48)) else none

def usizeBound : Nat := 2 ^ 64

def parseUsize (bs : Bytes) : Option Nat :=
  let ds := match bs with
    | 43 :: r => r
    | _ => bs
  match ds with
  | [] => none
  | _ => match foldDigits ds 0 with
    | some n => if n < usizeBound then some n else none
    | none => none

end InToto
