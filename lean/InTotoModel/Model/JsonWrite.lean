import InTotoModel.Model.Json
/-
  serde_json's two text writers for a `Value`:

  * `Json.write`                = `serde_json::to_string` / `to_vec` / `to_writer` (compact; already in
                                  `Model/Json.lean`, because `Value::write` of the canonical encoder is it);
  * `JsonWrite.writePretty`     = `serde_json::to_string_pretty` / `to_writer_pretty` (`PrettyFormatter`
                                  with the two-space indent), as used by `in_toto_run` when it writes a
                                  link file (`src/verifylib.rs`, `src/runlib.rs`) and by `JsonPretty::to_writer`.

  Library behaviour encoded here (validated by the `writetext` correspondence):
  * `[` … `]` and `{` … `}` on separate lines, every element / member on its own line, indented by two
    spaces per level; `,` directly after the element; `": "` between key and value;
  * an empty array is `[]`, an empty object `{}` (no line break);
  * strings and keys are escaped exactly as in the compact form (`Json.escBody`).
-/
namespace InToto.JsonWrite
open InToto InToto.Json

/-- the line break and indentation in front of an element at nesting level `n` -/
def nl (n : Nat) : Str := '\n' :: List.replicate (2 * n) ' '

mutual
/-- `n` = `current_indent` of the `PrettyFormatter` when the value starts -/
def writeP (n : Nat) : JV → Str
  | .null => ['n', 'u', 'l', 'l']
  | .bool true => ['t', 'r', 'u', 'e']
  | .bool false => ['f', 'a', 'l', 's', 'e']
  | .num (.int i) => intDec i
  | .num .nonInt => []          -- not written by any encoder of the library (floats never occur)
  | .str s => escStr s
  | .arr [] => ['[', ']']
  | .arr (x :: xs) => '[' :: (nl (n + 1) ++ (writeP (n + 1) x ++ tailP n xs))
  | .obj [] => ['{', '}']
  | .obj ((k, v) :: r) => '{' :: (nl (n + 1) ++ (escStr k ++ (':' :: ' ' :: (writeP (n + 1) v ++ mtailP n r))))
def tailP (n : Nat) : List JV → Str
  | [] => nl n ++ [']']
  | x :: xs => ',' :: (nl (n + 1) ++ (writeP (n + 1) x ++ tailP n xs))
def mtailP (n : Nat) : List (Str × JV) → Str
  | [] => nl n ++ ['}']
  | (k, v) :: r => ',' :: (nl (n + 1) ++ (escStr k ++ (':' :: ' ' :: (writeP (n + 1) v ++ mtailP n r))))
end

/-- `serde_json::to_string_pretty` -/
def writePretty (v : JV) : Str := writeP 0 v

end InToto.JsonWrite
