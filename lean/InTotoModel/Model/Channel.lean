import InTotoModel.Model.Basic
/-
  How a serde deserializer hands strings to the decoding code, and what that means for
  hand-written decoders (C17).

  A JSON document reaches a decoder through a *channel*: in-memory text (`from_str`,
  `from_slice`), a streaming reader (`from_reader`), or an already parsed tree (`from_value`,
  `Json::deserialize`; also everything decoded below a `#[serde(untagged)]` enum or through
  `Value::deserialize`, which buffer).  A decoder asks for each string either as an owned `String`
  or as a borrowed `&str`.  serde_json can satisfy a borrowed request only from in-memory text and
  only when the string's spelling contains no escape sequence (it then points into the input);
  every other combination makes the request fail with "invalid type: string, expected a borrowed
  string".  Owned requests always succeed.  (serde / serde_json internals: library behaviour,
  validated by the four-channel oracle of the harness.)
-/
namespace InToto.Channel

inductive Source where
  | memory      -- from_str / from_slice
  | reader      -- from_reader
  | tree        -- from_value / buffered content
  deriving DecidableEq, Repr

inductive Req where
  | borrowed
  | owned
  deriving DecidableEq, Repr

/-- one string of the document as the channel sees it: its value and whether its spelling in the
    text used an escape sequence -/
structure Tok where
  value : Str
  escaped : Bool

def canLend (src : Source) (t : Tok) : Bool :=
  match src with
  | .memory => !t.escaped
  | _ => false

/-- outcome of one string request -/
def fetch (src : Source) (req : Req) (t : Tok) : Option Str :=
  match req with
  | .owned => some t.value
  | .borrowed => if canLend src t then some t.value else none

/-- A decoder, abstractly: it consumes the document's strings in order, each with the request kind
    written in its code, and computes its result from the values it obtained (failing if a request
    fails).  `k` is the rest of the decoder. -/
def decode {α : Type} (src : Source) (reqs : List Req) (toks : List Tok) (k : List Str → Option α) : Option α :=
  match (List.zip reqs toks).mapM (fun p => fetch src p.1 p.2) with
  | some vals => k vals
  | none => none

end InToto.Channel
