import InTotoModel.Model.Basic
/-
  Model of `Metablock::verify` (src/models/metadata.rs).

      if signatures.is_empty()            -> Err
      if threshold < 1                    -> Err
      authorized : HashMap<&KeyId,&PublicKey>  = authorized_keys.map(|k| (k.key_id(), k)).collect()
      signatures : HashMap<&KeyId,&Signature>  = self.signatures.map(|s| (s.key_id(), s)).collect()
      needed = threshold
      for (key_id, sig) in signatures {          // HashMap iteration: arbitrary order
          if let Some(k) = authorized.get(key_id) { if k.verify(text, sig).is_ok() { needed -= 1 } }
          if needed == 0 { break }
      }
      if needed > 0 -> Err  else Ok(self.metadata.clone())

  * `collect()` into a `HashMap` keeps the *last* entry for a repeated key: `dedupLast`; lookups are
    `lastFind`.
  * The iteration order of a `HashMap` is arbitrary: `ord` is any function returning a permutation of
    its argument; theorems quantify over all of them.
  * Keys are abstract (`K`), `kidOf` is the intrinsic key id, `valid k val` says whether the signature
    value `val` verifies the block's signed text under key `k` (ring; a parameter).
  * `u32`: `needed -= 1` is only executed while `needed ≥ 1` (the `== 0` break), so `Nat` arithmetic
    is exact.  `to_bytes()` cannot fail for layouts and links (no non-integer numbers) and is not
    modelled as a failure source here.
-/
namespace InToto

structure Sig where
  kid : Str
  val : Bytes
  deriving DecidableEq, Repr

namespace Threshold

/-- entries that survive `collect::<HashMap>()`: an entry is dropped iff a later one has its key -/
def dedupLast {α : Type} : List (Str × α) → List (Str × α)
  | [] => []
  | (k, v) :: r => if r.any (fun p => p.1 == k) then dedupLast r else (k, v) :: dedupLast r

/-- `HashMap::get` after `collect()`: the last entry filed under `k` -/
def lastFind {α : Type} (k : Str) : List (Str × α) → Option α
  | [] => none
  | (k', v) :: r =>
    match lastFind k r with
    | some w => some w
    | none => if k = k' then some v else none

variable {K : Type}

/-- is this (deduplicated) signature entry a good one? -/
def good (valid : K → Bytes → Bool) (authTbl : List (Str × K)) (e : Str × Bytes) : Bool :=
  match lastFind e.1 authTbl with
  | some k => valid k e.2
  | none => false

/-- the counting loop with its early exit; returns what is left of `needed` -/
def loop (valid : K → Bytes → Bool) (authTbl : List (Str × K)) : Nat → List (Str × Bytes) → Nat
  | n, [] => n
  | n, e :: es =>
    let n' := if good valid authTbl e then n - 1 else n
    if n' = 0 then 0 else loop valid authTbl n' es

def verifySigs (kidOf : K → Str) (valid : K → Bytes → Bool)
    (ord : List (Str × Bytes) → List (Str × Bytes))
    (sigs : List Sig) (t : Nat) (auth : List K) : Out Unit :=
  if sigs.isEmpty then .err 1
  else if t < 1 then .err 1
  else
    let authTbl := auth.map (fun k => (kidOf k, k))
    let entries := ord (dedupLast (sigs.map (fun s => (s.kid, s.val))))
    if loop valid authTbl t entries = 0 then .ok () else .err 1

/-- `Metablock::verify`: on success returns (a clone of) the block's own signed content. -/
def verifyBlock {α : Type} (kidOf : K → Str) (valid : K → Bytes → Bool)
    (ord : List (Str × Bytes) → List (Str × Bytes))
    (sigs : List Sig) (signed : α) (t : Nat) (auth : List K) : Out α :=
  match verifySigs kidOf valid ord sigs t auth with
  | .ok () => .ok signed
  | .err c => .err c
  | .panic s => .panic s

end Threshold
end InToto
