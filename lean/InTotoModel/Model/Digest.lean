import InTotoModel.Model.Sha256
import InTotoModel.Model.Sha512
/-
  `calculate_hashes` (`src/crypto.rs`): the digests of a stream for a list of requested algorithms.
  An empty list is an error; a context is kept per *distinct* algorithm (a `HashMap`); every chunk a
  `read` call returns is handed to every context; the first read error aborts.
-/
namespace InToto.Digest
open InToto InToto.Md

inductive HashAlg where
  | sha256 | sha512
  deriving DecidableEq, Repr

def HashAlg.name : HashAlg → String
  | .sha256 => "sha256"
  | .sha512 => "sha512"

/-- size and digest of what was read, for one algorithm -/
def calcOne : HashAlg → List ReadRes → Option (Nat × Bytes)
  | .sha256, reads => calcHash Sha256.alg reads
  | .sha512, reads => calcHash Sha512.alg reads

/-- the one-shot digest -/
def digest : HashAlg → Bytes → Bytes
  | .sha256, b => Sha256.hash b
  | .sha512, b => Sha512.hash b

/-- `calculate_hashes`: `none` = error; otherwise the size and one digest per distinct requested
    algorithm (listed in the fixed order sha256, sha512: the result is a map) -/
def calcHashes (algs : List HashAlg) (reads : List ReadRes) : Option (Nat × List (HashAlg × Bytes)) :=
  if algs.isEmpty then none
  else
    match calcOne .sha256 reads, calcOne .sha512 reads with
    | some (n, d256), some (_, d512) =>
      some (n, (if .sha256 ∈ algs then [(.sha256, d256)] else []) ++ (if .sha512 ∈ algs then [(.sha512, d512)] else []))
    | _, _ => none

end InToto.Digest
