import InTotoModel.Model.Codec
import InTotoModel.Model.Pem
import InTotoModel.Model.Sha256
/-
  `impl Deserialize for PublicKey` / `impl Serialize for PublicKey` (src/crypto.rs) over key
  descriptions (`KeyId.KeyDesc`): the reader of a key's JSON description.  The writer is
  `KeyId.keyJson`, the id `KeyId.keyIdWith`.

  serde-derive behaviour of `shims::PublicKey` encoded here: members are read by name, unknown ones
  ignored; `keytype`, `scheme`, `keyval` (with `public`) are required; `keyid_hash_algorithms`, `keyid`
  and `keyval.private` are `Option`s (absent or `null` = `None`, any other shape is an error); the
  `keyid` member is read and *not used* - the id is recomputed from the description.  Then by type:
  ed25519 and ecdsa need their own scheme and lower-case hex material (ed25519: 32 bytes); rsa takes any
  of the four scheme names, its material is PEM (`Model/Pem.lean`, any tag) of a SubjectPublicKeyInfo
  whose algorithm is RSA (`KeyId.spkiDecode`).
  Not modelled: the `{"Unknown": s}` form of `SignatureScheme` (never written by the library for a key it
  can use; the correspondence check leaves such documents out).
-/
namespace InToto.KeyJson
open InToto InToto.KeyId InToto.Wire

def typeOfName (s : Str) : Option KeyType :=
  if s = "ed25519".toList then some .ed25519 else if s = "rsa".toList then some .rsa
  else if s = "ecdsa".toList then some .ecdsa else none

def sEd : Str := "ed25519".toList
def sEc : Str := "ecdsa-sha2-nistp256".toList
def sPss256 : Str := "rsassa-pss-sha256".toList
def sPss512 : Str := "rsassa-pss-sha512".toList

def schemeOfJson : JV → Option Str
  | .str s => if s = sEd ∨ s = sEc ∨ s = sPss256 ∨ s = sPss512 then some s else none
  | _ => none

/-- `Option<String>`: absent / `null` / a string -/
def optStrOk (kvs : List (Str × JV)) (k : Str) : Bool :=
  match getField k kvs with
  | none => true
  | some .null => true
  | some (.str _) => true
  | some _ => false

def algsOfJson (kvs : List (Str × JV)) : Option (Option (List Str)) :=
  match getField "keyid_hash_algorithms".toList kvs with
  | none => some none
  | some .null => some none
  | some (.arr xs) => (allOpt decStr xs).map some
  | some _ => none

def publicOfJson : JV → Option Str
  | .obj kvs => if optStrOk kvs "private".toList then req "public".toList kvs decStr else none
  | _ => none

/-- the type-specific part: scheme compatibility and the material out of `keyval.public` -/
def descOfPublic (t : KeyType) (scheme : Str) (algs : Option (List Str)) (pub : Str) : Option KeyDesc :=
  match t with
  | .ed25519 =>
    if scheme ≠ sEd then none else
    (hexDecode pub).bind fun m =>
      if m.length = 32 then some { typ := .ed25519, scheme := scheme, hashAlgs := algs, material := m } else none
  | .ecdsa =>
    if scheme ≠ sEc then none else
    (hexDecode pub).map fun m => { typ := .ecdsa, scheme := scheme, hashAlgs := algs, material := m }
  | .rsa =>
    (Pem.parse pub).bind fun p =>
      match spkiDecode p.2 with
      | some (.rsa, m) => some { typ := .rsa, scheme := scheme, hashAlgs := algs, material := m }
      | _ => none

def keyOfJson : JV → Option KeyDesc
  | .obj kvs =>
    (req "keytype".toList kvs decStr).bind fun tn =>
    (req "scheme".toList kvs schemeOfJson).bind fun scheme =>
    (algsOfJson kvs).bind fun algs =>
    (req "keyval".toList kvs publicOfJson).bind fun pub =>
    if !optStrOk kvs "keyid".toList then none else
    match typeOfName tn with
    | none => none
    | some t => descOfPublic t scheme algs pub
  | _ => none

def kidOf (d : KeyDesc) : Str := (keyIdWith Sha256.hash Utf8.encode d).getD []

def keyToJson (d : KeyDesc) : JV := keyJson d (kidOf d)

/-- the key part of the layout codec's environment, with nothing left to observe -/
def stdKeyEnv : DocEnv KeyDesc :=
  { keyToJson := keyToJson, keyOfJson := keyOfJson, kidOf := kidOf,
    fmtTime := Time.fmtTimeKey, parseTime := Time.parseTimeKey }

end InToto.KeyJson
