import InTotoModel.Model.Codec
import InTotoModel.Model.Attest
/-
  Value-level codec of the attestation formats (statements and predicates), generic in the schemas
  that `translate/schema.py` reads from the source on every run (`Generated.schemas`: member names
  after `rename`, field types, `Option`, `skip_serializing_if`, `deny_unknown_fields`; the version
  detection order; the `StateV01` consistency check).

  serde-derive behaviour encoded here: members are read by name; a missing member of `Option` type
  is `None`, any other missing member is an error; `null` for an `Option` is `None`; with
  `deny_unknown_fields` any other member is an error; `Option` members with
  `skip_serializing_if = "Option::is_none"` are omitted when `None`, other `None`s are written as
  `null`; a newtype around `String` is the string; `usize` is an integer in `0 … 2⁶⁴-1`;
  `HashMap<String, String>` is an object of strings (compared as a map).  Untagged wrappers try the
  formats in declaration order and take the first that decodes.

  Field types modelled elsewhere enter through `Ext`: artifact maps, commands and byproducts
  (`Model/Codec.lean`, `Model/Wire.lean`), timestamps (`Model/Time.lean`); each is "decode and write
  again", i.e. the normal form of the member.
-/
namespace InToto.AttestCodec
open InToto InToto.Generated InToto.Attest InToto.Wire

inductive AVal where
  | str (s : Str)
  | bool (b : Bool)
  | nat (n : Nat)
  | map (kvs : List (Str × Str))
  | none
  | some (v : AVal)
  | list (vs : List AVal)
  | struct (name : Str) (fields : List (Str × AVal))
  | ext (name : Str) (j : JV)

/-- externally modelled member types: decode the member and write it again (`none` = rejected) -/
structure Ext where
  norm : Str → JV → Option JV

def lookupJ (k : Str) : List (Str × JV) → Option JV
  | [] => Option.none
  | (a, b) :: r => if a = k then Option.some b else lookupJ k r

def sPredicate : Str := "predicate".toList
def sPredicateVer : Str := "predicateVer".toList
def sPredicateType : Str := "predicateType".toList
def sStateV01 : Str := "StateV01".toList

/-- insertion into a sorted association list (the map view of `HashMap<String, String>`) -/
def insertSS (k v : Str) : List (Str × Str) → List (Str × Str)
  | [] => [(k, v)]
  | (k', v') :: r =>
    if strLt k k' then (k, v) :: (k', v') :: r
    else if strLt k' k then (k', v') :: insertSS k v r
    else (k, v) :: r

def sortSS (kvs : List (Str × Str)) : List (Str × Str) := kvs.foldl (fun acc p => insertSS p.1 p.2 acc) []

def firstSome {α : Type} : List (Option α) → Option α
  | [] => Option.none
  | Option.some a :: _ => Option.some a
  | Option.none :: r => firstSome r

/-- `StateV01::try_from`: the declared predicate type names the version of the contained predicate -/
def stateV01Consistent (fields : List (Str × AVal)) : Bool :=
  match fields.find? (·.1 = sPredicateType), fields.find? (·.1 = sPredicate) with
  | Option.some (_, .ext _ (.str declared)), Option.some (_, .struct fmt _) =>
    (predicateVerOf declared).isSome && predicateVerOf declared == versionOfFormat fmt
  | _, _ => false

/-- one member of a struct, read with the decoder `d` of its type -/
def decFieldWith (d : FTy → JV → Option AVal) (kvs : List (Str × JV)) (fs : FieldSpec) : Option (Str × AVal) :=
  match lookupJ fs.name kvs with
  | Option.some j => (d fs.ty j).map fun v => (fs.name, v)
  | Option.none => if fs.required then Option.none else Option.some (fs.name, AVal.none)

/-- one member of a struct, written with the encoder `e` of its type (`None` skipped or `null`) -/
def encFieldWith (e : FTy → AVal → JV) (p : FieldSpec × (Str × AVal)) : Option (Str × JV) :=
  match p.2.2 with
  | .none => if p.1.skipNone then Option.none else Option.some (p.1.name, JV.null)
  | v => Option.some (p.1.name, e p.1.ty v)

/-- decoding; fuel bounds the nesting of structs -/
def dec (E : Ext) : Nat → FTy → JV → Option AVal
  | 0, _, _ => Option.none
  | _ + 1, .str, .str s => Option.some (.str s)
  | _ + 1, .bool, .bool b => Option.some (.bool b)
  | _ + 1, .usize, .num (.int i) => if 0 ≤ i ∧ i < (2 ^ 64 : Int) then Option.some (.nat i.toNat) else Option.none
  | _ + 1, .strMap, j => (strMapOfJson j).map fun m => .map (sortSS m)
  | _ + 1, .opt _, .null => Option.some .none
  | f + 1, .opt t, j => (dec E f t j).map .some
  | f + 1, .list t, .arr xs => (allOpt (dec E f t) xs).map .list
  | f + 1, .ref n, .obj kvs =>
    match findSchema n with
    | Option.none => Option.none
    | Option.some s =>
      if s.denyUnknown && !(kvs.all fun p => decide (p.1 ∈ fieldNames s)) then Option.none
      else
        match allOpt (decFieldWith (dec E f) kvs) s.fields with
        | Option.none => Option.none
        | Option.some fields =>
          if n = sStateV01 && stateV01ChecksPredicateType && !stateV01Consistent fields then Option.none
          else Option.some (.struct n fields)
  | f + 1, .ext n, j =>
    if n = sPredicate then firstSome (predicateTrialOrder.map fun p => dec E f (.ref p.2) j)
    else (E.norm n j).map (.ext n)
  | _ + 1, _, _ => Option.none

/-- encoding -/
def enc : Nat → FTy → AVal → JV
  | 0, _, _ => .null
  | _ + 1, .str, .str s => .str s
  | _ + 1, .bool, .bool b => .bool b
  | _ + 1, .usize, .nat n => .num (.int n)
  | _ + 1, .strMap, .map m => strMapToJson m
  | _ + 1, .opt _, .none => .null
  | f + 1, .opt t, .some v => enc f t v
  | f + 1, .list t, .list vs => .arr (vs.map (enc f t))
  | f + 1, .ref _, .struct n fields =>
    match findSchema n with
    | Option.none => .null
    | Option.some s =>
      .obj ((s.fields.zip fields).filterMap (encFieldWith (enc f)))
  | f + 1, .ext _, .struct n fields => enc f (.ref n) (.struct n fields)
  | _ + 1, .ext _, .ext _ j => j
  | _ + 1, _, _ => .null

def fuel : Nat := 12

/-- `StatementWrapper` / `PredicateWrapper`: first format, in declaration order, that decodes -/
def decStatement (E : Ext) (j : JV) : Option AVal :=
  firstSome (statementTrialOrder.map fun p => dec E fuel (.ref p.2) j)

def decPredicate (E : Ext) (j : JV) : Option AVal :=
  firstSome (predicateTrialOrder.map fun p => dec E fuel (.ref p.2) j)

def encTop (v : AVal) : JV :=
  match v with
  | .struct n fields => enc fuel (.ref n) (.struct n fields)
  | _ => .null

end InToto.AttestCodec
