import InTotoModel.Model.Json
/-
  A strict JSON reader (RFC 8259 without insignificant whitespace and without non-integer
  numbers): the executable meaning of "the canonical encoding is valid JSON and parses back to
  the identical value".  It accepts a subset of the JSON texts and returns the value they denote:
  the seven two-character escapes, `\u` + four hex digits for non-surrogate code points, raw
  characters from U+0020 upwards, integers without leading zeros (no `-0`).  Objects are
  returned in source order.  Recursion is on fuel (one unit per value / element / member).
-/
namespace InToto.Json

def isDigitC (c : Char) : Bool := 48 ≤ c.toNat && c.toNat ≤ 57

def foldDigitsC : Str → Nat → Nat × Str
  | [], acc => (acc, [])
  | c :: cs, acc => if isDigitC c then foldDigitsC cs (acc * 10 + (c.toNat - 48)) else (acc, c :: cs)

/-- digits without a leading zero (a single `0` allowed) -/
def parseNat (s : Str) : Option (Nat × Str) :=
  match s with
  | [] => none
  | c :: cs =>
    if !isDigitC c then none
    else if c = '0' then
      match cs with
      | d :: _ => if isDigitC d then none else some (0, cs)
      | [] => some (0, cs)
    else some (foldDigitsC (c :: cs) 0)

def parseInt (s : Str) : Option (Int × Str) :=
  match s with
  | '-' :: r =>
    match parseNat r with
    | some (0, _) => none
    | some (n + 1, r') => some (Int.negSucc n, r')
    | none => none
  | _ =>
    match parseNat s with
    | some (n, r') => some (Int.ofNat n, r')
    | none => none

def hexValC (c : Char) : Option Nat :=
  if 48 ≤ c.toNat && c.toNat ≤ 57 then some (c.toNat - 48)
  else if 97 ≤ c.toNat && c.toNat ≤ 102 then some (c.toNat - 87)
  else if 65 ≤ c.toNat && c.toNat ≤ 70 then some (c.toNat - 55)
  else none

/-- string body after the opening quote; `acc` is reversed -/
def parseStrBody : Str → Str → Option (Str × Str)
  | [], _ => none
  | '"' :: r, acc => some (acc.reverse, r)
  | '\\' :: '"' :: r, acc => parseStrBody r ('"' :: acc)
  | '\\' :: '\\' :: r, acc => parseStrBody r ('\\' :: acc)
  | '\\' :: '/' :: r, acc => parseStrBody r ('/' :: acc)
  | '\\' :: 'b' :: r, acc => parseStrBody r (Char.ofNat 8 :: acc)
  | '\\' :: 'f' :: r, acc => parseStrBody r (Char.ofNat 12 :: acc)
  | '\\' :: 'n' :: r, acc => parseStrBody r (Char.ofNat 10 :: acc)
  | '\\' :: 'r' :: r, acc => parseStrBody r (Char.ofNat 13 :: acc)
  | '\\' :: 't' :: r, acc => parseStrBody r (Char.ofNat 9 :: acc)
  | '\\' :: 'u' :: a :: b :: c :: d :: r, acc =>
    match hexValC a, hexValC b, hexValC c, hexValC d with
    | some a, some b, some c, some d =>
      let n := a * 4096 + b * 256 + c * 16 + d
      if 0xD800 ≤ n && n ≤ 0xDFFF then none else parseStrBody r (Char.ofNat n :: acc)
    | _, _, _, _ => none
  | '\\' :: _, _ => none
  | c :: r, acc => if c.toNat < 32 then none else parseStrBody r (c :: acc)

def parseKeyG (P : Str → Str → Option (Str × Str)) (s : Str) : Option (Str × Str) :=
  match s with
  | '"' :: r0 =>
    match P r0 [] with
    | some (k, ':' :: r1) => some (k, r1)
    | _ => none
  | _ => none

mutual
def parseVG (P : Str → Str → Option (Str × Str)) : Nat → Str → Option (JV × Str)
  | 0, _ => none
  | f + 1, s =>
    match s with
    | 'n' :: 'u' :: 'l' :: 'l' :: r => some (.null, r)
    | 't' :: 'r' :: 'u' :: 'e' :: r => some (.bool true, r)
    | 'f' :: 'a' :: 'l' :: 's' :: 'e' :: r => some (.bool false, r)
    | '"' :: r =>
      match P r [] with
      | some (str, r') => some (.str str, r')
      | none => none
    | '[' :: ']' :: r => some (.arr [], r)
    | '[' :: r =>
      match parseVG P f r with
      | some (x, r1) =>
        match parseTailG P f r1 with
        | some (xs, r2) => some (.arr (x :: xs), r2)
        | none => none
      | none => none
    | '{' :: '}' :: r => some (.obj [], r)
    | '{' :: r =>
      match parseKeyG P r with
      | some (k, r1) =>
        match parseVG P f r1 with
        | some (v, r2) =>
          match parseMTailG P f r2 with
          | some (kvs, r3) => some (.obj ((k, v) :: kvs), r3)
          | none => none
        | none => none
      | none => none
    | _ =>
      match parseInt s with
      | some (i, r') => some (.num (.int i), r')
      | none => none
def parseTailG (P : Str → Str → Option (Str × Str)) : Nat → Str → Option (List JV × Str)
  | 0, _ => none
  | f + 1, s =>
    match s with
    | ']' :: r => some ([], r)
    | ',' :: r =>
      match parseVG P f r with
      | some (x, r1) =>
        match parseTailG P f r1 with
        | some (xs, r2) => some (x :: xs, r2)
        | none => none
      | none => none
    | _ => none
def parseMTailG (P : Str → Str → Option (Str × Str)) : Nat → Str → Option (List (Str × JV) × Str)
  | 0, _ => none
  | f + 1, s =>
    match s with
    | '}' :: r => some ([], r)
    | ',' :: r =>
      match parseKeyG P r with
      | some (k, r1) =>
        match parseVG P f r1 with
        | some (v, r2) =>
          match parseMTailG P f r2 with
          | some (kvs, r3) => some ((k, v) :: kvs, r3)
          | none => none
        | none => none
      | none => none
    | _ => none
end

/-- string body of the reference encoding: only `\\\\` and `\\"` are escapes, everything else is raw -/
def refParseStrBody : Str → Str → Option (Str × Str)
  | [], _ => none
  | '"' :: r, acc => some (acc.reverse, r)
  | '\\' :: '"' :: r, acc => refParseStrBody r ('"' :: acc)
  | '\\' :: '\\' :: r, acc => refParseStrBody r ('\\' :: acc)
  | '\\' :: _, _ => none
  | c :: r, acc => refParseStrBody r (c :: acc)

abbrev parseV := parseVG parseStrBody
abbrev parseTail := parseTailG parseStrBody
abbrev parseMTail := parseMTailG parseStrBody
abbrev parseKey := parseKeyG parseStrBody

/-- Parse a complete text (generic in the string-body reader). -/
def parseJG (P : Str → Str → Option (Str × Str)) (t : Str) : Option JV :=
  match parseVG P (t.length + 1) t with
  | some (v, []) => some v
  | _ => none

/-- strict JSON -/
abbrev parseJ := parseJG parseStrBody
/-- reader of the reference (OLPC) encoding -/
abbrev parseRef := parseJG refParseStrBody

end InToto.Json
