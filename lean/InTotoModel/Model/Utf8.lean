import InTotoModel.Model.Basic
/-
  UTF-8: well-formedness test (= Rust `str::from_utf8(..).is_ok()`, the table of RFC 3629 /
  Unicode ch. 3 table 3-7), encoder and decoder over `List Char`.
-/
namespace InToto.Utf8

@[inline] def cont (b : UInt8) : Bool := 0x80 ≤ b && b ≤ 0xBF

def valid : Bytes → Bool
  | [] => true
  | b0 :: rest =>
    if b0 ≤ 0x7F then valid rest
    else if 0xC2 ≤ b0 && b0 ≤ 0xDF then
      match rest with
      | b1 :: r => cont b1 && valid r
      | _ => false
    else if 0xE0 ≤ b0 && b0 ≤ 0xEF then
      match rest with
      | b1 :: b2 :: r =>
        (if b0 = 0xE0 then 0xA0 ≤ b1 && b1 ≤ 0xBF
         else if b0 = 0xED then 0x80 ≤ b1 && b1 ≤ 0x9F
         else cont b1) && cont b2 && valid r
      | _ => false
    else if 0xF0 ≤ b0 && b0 ≤ 0xF4 then
      match rest with
      | b1 :: b2 :: b3 :: r =>
        (if b0 = 0xF0 then 0x90 ≤ b1 && b1 ≤ 0xBF
         else if b0 = 0xF4 then 0x80 ≤ b1 && b1 ≤ 0x8F
         else cont b1) && cont b2 && cont b3 && valid r
      | _ => false
    else false

def encodeChar (c : Char) : Bytes :=
  let n := c.toNat
  if n < 0x80 then [UInt8.ofNat n]
  else if n < 0x800 then [UInt8.ofNat (0xC0 + n / 64), UInt8.ofNat (0x80 + n % 64)]
  else if n < 0x10000 then
    [UInt8.ofNat (0xE0 + n / 4096), UInt8.ofNat (0x80 + n / 64 % 64), UInt8.ofNat (0x80 + n % 64)]
  else
    [UInt8.ofNat (0xF0 + n / 262144), UInt8.ofNat (0x80 + n / 4096 % 64),
     UInt8.ofNat (0x80 + n / 64 % 64), UInt8.ofNat (0x80 + n % 64)]

def encode (s : Str) : Bytes := s.flatMap encodeChar

/-- Decode well-formed UTF-8; `none` on ill-formed input. -/
def decode : Bytes → Option Str
  | [] => some []
  | b0 :: rest =>
    if b0 ≤ 0x7F then (decode rest).map (Char.ofNat b0.toNat :: ·)
    else if 0xC2 ≤ b0 && b0 ≤ 0xDF then
      match rest with
      | b1 :: r =>
        if cont b1 then
          (decode r).map (Char.ofNat ((b0.toNat - 0xC0) * 64 + (b1.toNat - 0x80)) :: ·)
        else none
      | _ => none
    else if 0xE0 ≤ b0 && b0 ≤ 0xEF then
      match rest with
      | b1 :: b2 :: r =>
        if (if b0 = 0xE0 then 0xA0 ≤ b1 && b1 ≤ 0xBF
            else if b0 = 0xED then 0x80 ≤ b1 && b1 ≤ 0x9F
            else cont b1) && cont b2 then
          (decode r).map
            (Char.ofNat ((b0.toNat - 0xE0) * 4096 + (b1.toNat - 0x80) * 64 + (b2.toNat - 0x80)) :: ·)
        else none
      | _ => none
    else if 0xF0 ≤ b0 && b0 ≤ 0xF4 then
      match rest with
      | b1 :: b2 :: b3 :: r =>
        if (if b0 = 0xF0 then 0x90 ≤ b1 && b1 ≤ 0xBF
            else if b0 = 0xF4 then 0x80 ≤ b1 && b1 ≤ 0x8F
            else cont b1) && cont b2 && cont b3 then
          (decode r).map
            (Char.ofNat ((b0.toNat - 0xF0) * 262144 + (b1.toNat - 0x80) * 4096
              + (b2.toNat - 0x80) * 64 + (b3.toNat - 0x80)) :: ·)
        else none
      | _ => none
    else none

end InToto.Utf8
