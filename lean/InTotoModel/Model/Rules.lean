import InTotoModel.Model.Glob
import InTotoModel.Model.PathClean
/-
  Model of `src/rulelib.rs` (`apply_rules_on_link`, `verify_match_rule`, `canonicalize_path`).

  * `BTreeSet<VirtualTargetPath>` = duplicate-free list (the verdict does not depend on order);
    `difference`/`intersection` are filters.
  * `BTreeMap<VirtualTargetPath, TargetDescription>` rebuilt with canonicalised keys = `canonMap`
    (a later entry replaces an earlier one with the same canonical path); `get` = `lookupLast`.
  * `TargetDescription = HashMap<HashAlgorithm, HashValue>`: compared with `==`; represented
    canonically (sorted by algorithm name) so that `=` is map equality.
  * `PathBuf::push` on text: `pathPush`.
  * the link table `HashMap<String, LinkMetadata>` is an association list with unique names.
  Errors are `err 9` (ArtifactRuleError / missing link); the code has no panicking path left
  after the `fix:` commits (the former ones are recorded in Props/C14).
-/
namespace InToto.Rules

abbrev Digest := List (Str × Bytes)
abbrev Artifacts := List (Str × Digest)

inductive ArtKind where
  | materials
  | products
  deriving DecidableEq, Repr

inductive Rule where
  | create (p : Str)
  | delete (p : Str)
  | modify (p : Str)
  | allow (p : Str)
  | require (p : Str)
  | disallow (p : Str)
  | matchR (pattern : Str) (inSrc : Option Str) (with_ : ArtKind) (inDst : Option Str) (from_ : Str)
  deriving DecidableEq, Repr

def Rule.pattern : Rule → Str
  | .create p | .delete p | .modify p | .allow p | .require p | .disallow p => p
  | .matchR p _ _ _ _ => p

structure LinkArts where
  materials : Artifacts
  products : Artifacts
  deriving DecidableEq, Repr

structure Item where
  name : Str
  expMaterials : List Rule
  expProducts : List Rule
  deriving Repr

/-- `canonicalize_path` (never fails: `VirtualTargetPath::new` is total) -/
def canonPath (p : Str) : Str := PathClean.clean p

/-- `VirtualTargetPath::matches`: `none` = the pattern is rejected by `glob::Pattern::new` -/
def pathMatches (pattern path : Str) : Option Bool := Glob.globMatch pattern path

def dedup : List Str → List Str
  | [] => []
  | x :: r => if x ∈ r then dedup r else x :: dedup r

def lookupLast (k : Str) : Artifacts → Option Digest
  | [] => none
  | (k', v) :: r =>
    match lookupLast k r with
    | some w => some w
    | none => if k = k' then some v else none

def canonMap (a : Artifacts) : Artifacts := a.map fun (p, d) => (canonPath p, d)

def findLink (name : Str) : List (Str × LinkArts) → Option LinkArts
  | [] => none
  | (n, l) :: r => if n = name then some l else findLink name r

/-- `PathBuf::push` on Unix text paths -/
def pathPush (buf p : Str) : Str :=
  if p.head? = some '/' then p
  else if buf.isEmpty then p
  else if buf.getLast? = some '/' then buf ++ p
  else buf ++ '/' :: p

def stripPrefix : Str → Str → Option Str
  | [], s => some s
  | _ :: _, [] => none
  | a :: as, b :: bs => if a = b then stripPrefix as bs else none

/-- `"<dir>/"` as built by `PathBuf::new(); push(dir); to_string_lossy(); push('/')` -/
def prefixOf : Option Str → Str
  | none => []
  | some d => pathPush [] d ++ ['/']

/-- `verify_match_rule`: the artifacts of `queue` consumed by a MATCH rule -/
def verifyMatch (pattern : Str) (inSrc : Option Str) (with_ : ArtKind) (inDst : Option Str) (from_ : Str)
    (arts : Artifacts) (queue : List Str) (reduced : List (Str × LinkArts)) : List Str :=
  match findLink from_ reduced with
  | none => []
  | some dstLink =>
    let dstArts := canonMap (match with_ with | .materials => dstLink.materials | .products => dstLink.products)
    let srcArts := canonMap arts
    let dstPrefix := prefixOf inDst
    let srcPrefix := prefixOf inSrc
    queue.filter fun p =>
      match stripPrefix srcPrefix p with
      | none => false
      | some base =>
        match pathMatches pattern base with
        | some true =>
          let dstPath := pathPush (pathPush [] dstPrefix) base
          match lookupLast dstPath dstArts with
          | some d => lookupLast p srcArts == some d
          | none => false
        | _ => false

/-- one rule applied to the queue: the consumed set, or an error -/
def applyRule (rule : Rule) (arts : Artifacts) (created deleted modified : List Str)
    (queue : List Str) (reduced : List (Str × LinkArts)) : Out (List Str) :=
  let filtered := queue.filter fun p => pathMatches rule.pattern p == some true
  match rule with
  | .create _ => .ok (filtered.filter (· ∈ created))
  | .delete _ => .ok (filtered.filter (· ∈ deleted))
  | .modify _ => .ok (filtered.filter (· ∈ modified))
  | .allow _ => .ok filtered
  | .require p => if p ∈ queue then .ok [] else .err 9
  | .disallow p =>
    if (Glob.parse p).isNone then .err 9
    else if filtered.isEmpty then .ok [] else .err 9
  | .matchR pattern inSrc with_ inDst from_ =>
    .ok (verifyMatch pattern inSrc with_ inDst from_ arts queue reduced)

def applyRules (rules : List Rule) (arts : Artifacts) (created deleted modified : List Str)
    (reduced : List (Str × LinkArts)) : List Str → Out Unit
  | queue =>
    match rules with
    | [] => .ok ()
    | rule :: rest =>
      match applyRule rule arts created deleted modified queue reduced with
      | .ok consumed => applyRules rest arts created deleted modified reduced (queue.filter (· ∉ consumed))
      | .err c => .err c
      | .panic s => .panic s

/-- `apply_rules_on_link` -/
def applyRulesOnLink (item : Item) (reduced : List (Str × LinkArts)) : Out Unit :=
  match findLink item.name reduced with
  | none => .err 9
  | some src =>
    let materialPaths := dedup (src.materials.map fun (p, _) => canonPath p)
    let productPaths := dedup (src.products.map fun (p, _) => canonPath p)
    let mC := canonMap src.materials
    let pC := canonMap src.products
    let created := productPaths.filter (· ∉ materialPaths)
    let deleted := materialPaths.filter (· ∉ productPaths)
    let modified := materialPaths.filter fun p => p ∈ productPaths && lookupLast p mC != lookupLast p pC
    match applyRules item.expMaterials src.materials created deleted modified reduced materialPaths with
    | .ok () => applyRules item.expProducts src.products created deleted modified reduced productPaths
    | .err c => .err c
    | .panic s => .panic s

end InToto.Rules
