import InTotoModel.Model.Json
/-
  The text that is signed / hashed (`models/metadata.rs` `Metablock::new`, `verify`,
  `MetablockBuilder::sign`; `crypto.rs` `calculate_key_id`):

      to_signable_text(String::from_utf8(Json::canonicalize(value)))

  `toSignable` = `interchange::cjson::to_signable_text`: a scan over the canonical JSON text that
                 tracks whether it is inside a string and, inside strings, replaces every escape
                 sequence other than `\\\\` and `\\"` by the character it denotes (`sigOut` = outside a
                 string, `sigIn` = inside).
  `signedText` = the composition with `canon`.
  `refCanon`   = the in-toto / securesystemslib reference encoding (OLPC canonical JSON): objects
                 sorted by key, no whitespace, integers in decimal, strings with only `\\` and `"`
                 escaped (as `\\\\` and `\\"`), everything else raw.
  (Before the `fix:` commit the code used `replace("\\\\n", "\\n")` instead of `to_signable_text`;
  `unescNl` is kept as the model of that former behaviour for the recorded witness.)
-/
namespace InToto.Json

def hexDigitVal (c : Char) : Option Nat :=
  if 48 ≤ c.toNat && c.toNat ≤ 57 then some (c.toNat - 48)
  else if 97 ≤ c.toNat && c.toNat ≤ 102 then some (c.toNat - 87)
  else if 65 ≤ c.toNat && c.toNat ≤ 70 then some (c.toNat - 55)
  else none

/-- `u32::from_str_radix(digits, 16)` on four ASCII hex digits, then `char::from_u32`. -/
def hex4Char (a b c d : Char) : Option Char :=
  match hexDigitVal a, hexDigitVal b, hexDigitVal c, hexDigitVal d with
  | some a, some b, some c, some d =>
    let n := a * 4096 + b * 256 + c * 16 + d
    if 0xD800 ≤ n && n ≤ 0xDFFF then none else some (Char.ofNat n)
  | _, _, _, _ => none

mutual
def sigIn : Str → Str
  | [] => []
  | '"' :: r => '"' :: sigOut r
  | '\\' :: 'b' :: r => Char.ofNat 8 :: sigIn r
  | '\\' :: 'f' :: r => Char.ofNat 12 :: sigIn r
  | '\\' :: 'n' :: r => Char.ofNat 10 :: sigIn r
  | '\\' :: 'r' :: r => Char.ofNat 13 :: sigIn r
  | '\\' :: 't' :: r => Char.ofNat 9 :: sigIn r
  | '\\' :: 'u' :: a :: b :: c :: d :: r =>
    match hex4Char a b c d with
    | some ch => ch :: sigIn r
    | none => '\\' :: 'u' :: a :: b :: c :: d :: sigIn r
  | '\\' :: 'u' :: r => '\\' :: 'u' :: r        -- fewer than four characters left: kept verbatim
  | '\\' :: o :: r => '\\' :: o :: sigIn r
  | ['\\'] => ['\\']
  | c :: r => c :: sigIn r
def sigOut : Str → Str
  | [] => []
  | '"' :: r => '"' :: sigIn r
  | c :: r => c :: sigOut r
end

def toSignable (t : Str) : Str := sigOut t

def signedText (v : JV) : Out Str :=
  match canon v with
  | .ok t => .ok (toSignable t)
  | .err c => .err c
  | .panic s => .panic s

/-- Former behaviour (before the `fix:` commit): Rust `str::replace("\\\\n", "\\n")`. -/
def unescNl : Str → Str
  | '\\' :: 'n' :: r => '\n' :: unescNl r
  | c :: r => c :: unescNl r
  | [] => []

/-! ### reference encoding -/

def refEscChar (c : Char) : Str :=
  if c = '"' then ['\\', '"'] else if c = '\\' then ['\\', '\\'] else [c]

def refEscBody : Str → Str
  | [] => []
  | c :: cs => refEscChar c ++ refEscBody cs

abbrev refWrite : JV → Str := writeG refEscBody

def refCanon (v : JV) : Out Str :=
  if hasNonInt v then .err 0 else .ok (refWrite (norm v))

end InToto.Json
