import InTotoModel.Model.Threshold
import InTotoModel.Model.Rules
/-
  Model of `src/verifylib.rs` (`in_toto_verify` and its twelve helpers) over an abstract link
  directory.

  External behaviour is a parameter (`Env`): the intrinsic key id, signature validity (ring), the
  clock, and what running an inspection does (exit status and the link it records); every
  `HashMap` iteration order is a parameter too (`Ord.perm`, one per iteration site, any function
  returning a permutation).  Nothing is assumed about them in this file.

  Data.
  * A link is reduced to what verification reads: name, materials/products (`LinkArts`) and one
    opaque blob `extra` standing for command, byproducts and environment (copied into summaries,
    compared never).
  * `Layout.keys`: the key table (`HashMap<KeyId, PublicKey>`) as an association list
    *filed id ↦ key*; parsing / `add_key` guarantee filed id = `kidOf key` (C12), theorems that
    need it take it as a hypothesis.
  * The link directory is a tree `Dir`: files (name, content) in the order `glob()` yields them
    (sorted by name) and sub-directories.  A file that cannot be read or parsed is `unreadable`.
  * `HashMap`s are association lists with `upsert` (insert or replace); iteration goes through
    `ord.perm site`.

  Stages and their error tags: 1 layout signatures / not a layout, 2 expiry, 3 loading links,
  4 link signatures and thresholds, 5 sub-layouts, 7 agreement, 8 reduce, 9 step rules,
  10 inspections, 11 inspection rules.  Tag 99 = outside the model (a step name containing glob
  metacharacters or `/`: the code's `glob()` call then means something else).
-/
namespace InToto.Verify
open InToto InToto.Rules InToto.Threshold

structure Link where
  name : Str
  arts : LinkArts
  extra : Bytes
  deriving DecidableEq, Repr

structure Step where
  name : Str
  threshold : Nat
  pubkeys : List Str
  expMaterials : List Rule
  expProducts : List Rule
  deriving Repr

structure Insp where
  name : Str
  expMaterials : List Rule
  expProducts : List Rule
  deriving Repr

structure Layout (K : Type) where
  expires : Int
  keys : List (Str × K)
  steps : List Step
  inspect : List Insp

inductive Meta (K : Type) where
  | layout (L : Layout K)
  | link (l : Link)

structure Block (K : Type) where
  sigs : List Sig
  signed : Meta K

inductive FileC (K : Type) where
  | unreadable
  | block (b : Block K)

inductive Dir (K : Type) where
  | mk (files : List (Str × FileC K)) (subs : List (Str × Dir K))

def Dir.files {K : Type} : Dir K → List (Str × FileC K)
  | .mk f _ => f

def Dir.subs {K : Type} : Dir K → List (Str × Dir K)
  | .mk _ s => s

def Dir.empty {K : Type} : Dir K := .mk [] []

/-- what an inspection did: `none` = the command could not be started or the recording failed (no
    command ran); otherwise its exit status and the link that was recorded -/
structure Env (K : Type) where
  kidOf : K → Str
  valid : K → Meta K → Bytes → Bool
  now : List Str → Int
  run : List Str → Insp → Option (Int × Link)

/-- iteration orders of the hash maps, one per site -/
structure Ord where
  perm : Nat → {α : Type} → List (Str × α) → List (Str × α)

inductive Event where
  | inspectionStarted (layoutPath : List Str) (name : Str)
  deriving DecidableEq, Repr

/-! ### association lists as hash maps -/

def upsert {α : Type} (k : Str) (v : α) : List (Str × α) → List (Str × α)
  | [] => [(k, v)]
  | (k', v') :: r => if k' = k then (k, v) :: r else (k', v') :: upsert k v r

def lookup {α : Type} (k : Str) : List (Str × α) → Option α
  | [] => none
  | (k', v) :: r => if k' = k then some v else lookup k r

/-! ### text helpers (`str::trim_*_matches`, `KeyId::prefix`) -/

def isPrefixOf : Str → Str → Bool
  | [], _ => true
  | _ :: _, [] => false
  | a :: as, b :: bs => a = b && isPrefixOf as bs

/-- `trim_start_matches(pat)` for a non-empty string pattern: removes repeated leading copies -/
def trimStartMatches (pat : Str) (s : Str) : Str :=
  if pat.isEmpty then s else go s.length s
where
  go : Nat → Str → Str
    | 0, s => s
    | f + 1, s => if isPrefixOf pat s then go f (s.drop pat.length) else s

def trimEndMatches (pat : Str) (s : Str) : Str :=
  (trimStartMatches pat.reverse s.reverse).reverse

def trimStartChar (c : Char) : Str → Str
  | [] => []
  | x :: r => if x = c then trimStartChar c r else x :: r

def dotLink : Str := ['.', 'l', 'i', 'n', 'k']

/-- the signer's short key id as computed from a link file name -/
def fileShortId (stepName fileName : Str) : Str :=
  trimStartChar '.' (trimStartMatches stepName (trimEndMatches dotLink fileName))

/-- does the step name hold pattern syntax of the glob crate? -/
def hasMeta (name : Str) : Bool := name.any fun c => c == '*' || c == '?' || c == '[' || c == ']'

/-- the file-name pattern of a step's evidence: `<step>.????????.link` -/
def stepPattern (stepName : Str) : Str := stepName ++ ['.', '?', '?', '?', '?', '?', '?', '?', '?'] ++ dotLink

/-- does `glob("<dir>/<step>.????????.link")` yield this file name?  For a name free of pattern
    syntax: the step name, a dot, eight characters, `.link`.  Otherwise the step name is read as a
    pattern too (`*`, `?`, `[..]` - the glob crate has no escape for them in a path): the file name is
    matched against the whole pattern as `glob::Pattern::matches` does (`Model/Glob.lean`). -/
def matchesStepFile (stepName fileName : Str) : Bool :=
  if hasMeta stepName then Glob.globMatch (stepPattern stepName) fileName == some true
  else
    fileName.length = stepName.length + 14
      && isPrefixOf (stepName ++ ['.']) fileName
      && (fileName.drop (stepName.length + 9)) = dotLink

/-- is the step's file-name pattern accepted by the glob crate (`a**b`, `x[` are not)? -/
def stepPatternOk (stepName : Str) : Bool := !hasMeta stepName || (Glob.parse (stepPattern stepName)).isSome

/-- `KeyId::prefix` (first eight characters) -/
def prefix8 (kid : Str) : Str := kid.take 8

/-- a `/` in a step name makes the pattern span directories: outside the model -/
def globSafe (name : Str) : Bool := name.all fun c => c != '/'

/-- the answer for a step name that cannot be looked up: 99 = outside the model, 3 = "Path glob error" -/
def nameErr (name : Str) : Nat := if globSafe name then 3 else 99

variable {K : Type}

/-! ### stage 1: layout signatures -/

def verifyBlockK (env : Env K) (ord : Ord) (b : Block K) (t : Nat) (auth : List K) : Out (Meta K) :=
  verifyBlock env.kidOf (fun k v => env.valid k b.signed v) (ord.perm 0) b.sigs b.signed t auth

/-! ### stage 3: loading link files -/

/-- `match_signatures`: the first signature whose id prefix equals the file's short id decides
    under which key id the file is filed -/
def matchSignatures (b : Block K) (short : Str) (acc : List (Str × Block K)) : List (Str × Block K) :=
  match b.sigs.find? (fun s => prefix8 s.kid = short) with
  | some s => upsert s.kid b acc
  | none => acc

def loadStepFiles (stepName : Str) : List (Str × FileC K) → List (Str × Block K) → Out (List (Str × Block K))
  | [], acc => .ok acc
  | (fname, c) :: rest, acc =>
    if matchesStepFile stepName fname then
      match c with
      | .unreadable => .err 3
      | .block b => loadStepFiles stepName rest (matchSignatures b (fileShortId stepName fname) acc)
    else loadStepFiles stepName rest acc

def loadLinks (dir : Dir K) : List Step → List (Str × List (Str × Block K)) →
    Out (List (Str × List (Str × Block K)))
  | [], acc => .ok acc
  | st :: rest, acc =>
    if !(globSafe st.name && stepPatternOk st.name) then .err (nameErr st.name) else
    match loadStepFiles st.name dir.files [] with
    | .ok links =>
      if links.length < st.threshold then .err 3
      else loadLinks dir rest (upsert st.name links acc)
    | .err c => .err c
    | .panic s => .panic s

/-! ### stage 4: link signatures and thresholds -/

/-- links of one step that are signed by a functionary authorized for the step -/
def goodLinks (env : Env K) (ord : Ord) (L : Layout K) (st : Step) :
    List (Str × Block K) → List (Str × Block K) → List (Str × Block K)
  | [], acc => acc
  | (kid, b) :: rest, acc =>
    if kid ∈ st.pubkeys then
      match lookup kid L.keys with
      | some k =>
        match verifyBlockK env ord b 1 [k] with
        | .ok _ => goodLinks env ord L st rest (upsert kid b acc)
        | _ => goodLinks env ord L st rest acc
      | none => goodLinks env ord L st rest acc
    else goodLinks env ord L st rest acc

def verifyThresholds (env : Env K) (ord : Ord) (L : Layout K)
    (loaded : List (Str × List (Str × Block K))) :
    List Step → List (Str × List (Str × Block K)) → Out (List (Str × List (Str × Block K)))
  | [], acc => .ok acc
  | st :: rest, acc =>
    let links := (lookup st.name loaded).getD []
    let good := goodLinks env ord L st (ord.perm 1 links) []
    -- (evidence is filed by step name: a second step of a name already seen is an error)
    if decide (good.length < st.threshold) || (lookup st.name acc).isSome then .err 4
    else verifyThresholds env ord L loaded rest (upsert st.name good acc)

/-! ### stages 7, 8: agreement and reduction -/

def agree (l : Link) (r : Link) : Bool := l.arts.materials = r.arts.materials && l.arts.products = r.arts.products

def checkAgreement (ord : Ord) (links : List (Str × List (Str × Link))) : List Step → Out Unit
  | [] => .ok ()
  | st :: rest =>
    if st.threshold ≤ 1 then checkAgreement ord links rest
    else
      match lookup st.name links with
      | none => .err 7
      | some per =>
        if per.length < st.threshold then .err 7
        else
          match (ord.perm 4 per).head? with
          | none => .err 7
          | some (_, ref) =>
            if per.all (fun e => agree e.2 ref) then checkAgreement ord links rest else .err 7

/-- the entry with the smallest key id (the representative of a step) -/
def minEntry {α : Type} : List (Str × α) → Option (Str × α)
  | [] => none
  | e :: r =>
    match minEntry r with
    | none => some e
    | some m => if strLt m.1 e.1 then some m else some e

def reduceLinks : List (Str × List (Str × Link)) → Out (List (Str × Link))
  | [] => .ok []
  | (name, per) :: rest =>
    match minEntry per with
    | none => .err 8
    | some (_, l) =>
      match reduceLinks rest with
      | .ok r => .ok ((name, l) :: r)
      | .err c => .err c
      | .panic s => .panic s

/-! ### stages 9-11: rules and inspections -/

def artsTable (reduced : List (Str × Link)) : List (Str × LinkArts) :=
  reduced.map fun e => (e.1, e.2.arts)

def itemRules (errc : Nat) (reduced : List (Str × Link)) : List Item → Out Unit
  | [] => .ok ()
  | it :: rest =>
    match applyRulesOnLink it (artsTable reduced) with
    | .ok () => itemRules errc reduced rest
    | .err _ => .err errc
    | .panic s => .panic s

def runInspections (env : Env K) (path : List Str) : List Insp → List (Str × Link) → List Event →
    Out (List (Str × Link)) × List Event
  | [], acc, ev => (.ok acc, ev)
  | i :: rest, acc, ev =>
    match env.run path i with
    | none => (.err 10, ev)
    | some (status, l) =>
      if status ≠ 0 then (.err 10, ev ++ [.inspectionStarted path i.name])
      else runInspections env path rest (upsert i.name l acc) (ev ++ [.inspectionStarted path i.name])

/-- `HashMap::extend` -/
def extend {α : Type} (m : List (Str × α)) : List (Str × α) → List (Str × α)
  | [] => m
  | (k, v) :: r => extend (upsert k v m) r

/-! ### stage 12: the summary link -/

def emptyLink (name : Str) : Link := { name := name, arts := { materials := [], products := [] }, extra := [] }

def summary (L : Layout K) (reduced : List (Str × Link)) (name : Str) : Out Link :=
  match L.steps.head?, L.steps.getLast? with
  | some first, some last =>
    match lookup first.name reduced, lookup last.name reduced with
    | some lf, some ll =>
      .ok { name := name, arts := { materials := lf.arts.materials, products := ll.arts.products }, extra := ll.extra }
    | _, _ => .panic 12
  | _, _ => .ok (emptyLink name)

/-! ### the pipeline -/

def stepItem (s : Step) : Item := { name := s.name, expMaterials := s.expMaterials, expProducts := s.expProducts }
def inspItem (i : Insp) : Item := { name := i.name, expMaterials := i.expMaterials, expProducts := i.expProducts }

def subDirOf (dir : Dir K) (name : Str) : Dir K := (lookup name dir.subs).getD Dir.empty

mutual
/-- `in_toto_verify` -/
def verify (env : Env K) (ord : Ord) : Nat → List Str → Block K → List K → Dir K → Str →
    Out Link × List Event
  | 0, _, _, _, _, _ => (.err 5, [])
  | fuel + 1, path, b, keys, dir, name =>
    match verifyBlockK env ord b keys.length keys with
    | .err c => (.err c, [])
    | .panic s => (.panic s, [])
    | .ok (.link _) => (.err 1, [])
    | .ok (.layout L) =>
      if L.expires < env.now path then (.err 2, []) else
      match loadLinks dir L.steps [] with
      | .err c => (.err c, [])
      | .panic s => (.panic s, [])
      | .ok loaded =>
        match verifyThresholds env ord L loaded L.steps [] with
        | .err c => (.err c, [])
        | .panic s => (.panic s, [])
        | .ok verified =>
          match subLayouts env ord fuel path L dir (ord.perm 2 verified) [] [] with
          | (.err c, ev) => (.err c, ev)
          | (.panic s, ev) => (.panic s, ev)
          | (.ok links, ev) =>
            match checkAgreement ord links L.steps with
            | .err c => (.err c, ev)
            | .panic s => (.panic s, ev)
            | .ok () =>
              match reduceLinks links with
              | .err c => (.err c, ev)
              | .panic s => (.panic s, ev)
              | .ok reduced =>
                match itemRules 9 reduced (L.steps.map stepItem) with
                | .err c => (.err c, ev)
                | .panic s => (.panic s, ev)
                | .ok () =>
                  match runInspections env path L.inspect [] ev with
                  | (.err c, ev') => (.err c, ev')
                  | (.panic s, ev') => (.panic s, ev')
                  | (.ok inspLinks, ev') =>
                    let reduced' := extend reduced inspLinks
                    match itemRules 11 reduced' (L.inspect.map inspItem) with
                    | .err c => (.err c, ev')
                    | .panic s => (.panic s, ev')
                    | .ok () => (summary L reduced' name, ev')
/-- `verify_sublayouts`: outer loop over steps -/
def subLayouts (env : Env K) (ord : Ord) : Nat → List Str → Layout K → Dir K →
    List (Str × List (Str × Block K)) → List (Str × List (Str × Link)) → List Event →
    Out (List (Str × List (Str × Link))) × List Event
  | _, _, _, _, [], acc, ev => (.ok acc, ev)
  | fuel, path, L, dir, (stepName, per) :: rest, acc, ev =>
    match subLayoutsStep env ord fuel path L dir stepName (ord.perm 3 per) [] ev with
    | (.err c, ev') => (.err c, ev')
    | (.panic s, ev') => (.panic s, ev')
    | (.ok perLinks, ev') => subLayouts env ord fuel path L dir rest (upsert stepName perLinks acc) ev'
/-- inner loop over the links of one step -/
def subLayoutsStep (env : Env K) (ord : Ord) : Nat → List Str → Layout K → Dir K → Str →
    List (Str × Block K) → List (Str × Link) → List Event → Out (List (Str × Link)) × List Event
  | _, _, _, _, _, [], acc, ev => (.ok acc, ev)
  | fuel, path, L, dir, stepName, (kid, b) :: rest, acc, ev =>
    match b.signed with
    | .link l => subLayoutsStep env ord fuel path L dir stepName rest (upsert kid l acc) ev
    | .layout _ =>
      match lookup kid L.keys with
      | none => (.err 5, ev)
      | some k =>
        let sub := stepName ++ '.' :: prefix8 kid
        match verify env ord fuel (path ++ [sub]) b [k] (subDirOf dir sub) stepName with
        | (.ok l, ev') => subLayoutsStep env ord fuel path L dir stepName rest (upsert kid l acc) (ev ++ ev')
        | (.err _, ev') => (.err 5, ev ++ ev')
        | (.panic s, ev') => (.panic s, ev ++ ev')
end

/-! ### the order in which delegated evidence is visited

`verify_sublayouts` visits the steps in layout order and the evidence of a step in key-id order
(verifying a sub-layout runs its inspections, which see and change the working directory).  In the
model the table handed to `subLayouts` is in layout order already (stage 4 files the steps in that
order), so this is the family of iteration orders whose site 2 leaves its list alone and whose
site 3 sorts by key id; the other sites are hash-map iterations and stay arbitrary. -/

def insertKid {α : Type} (e : Str × α) : List (Str × α) → List (Str × α)
  | [] => [e]
  | x :: r => if strLt x.1 e.1 then x :: insertKid e r else e :: x :: r

/-- insertion sort by key id (`Vec::sort_by` on `KeyId`, i.e. `String` order) -/
def sortKid {α : Type} : List (Str × α) → List (Str × α)
  | [] => []
  | e :: r => insertKid e (sortKid r)

/-- the iteration orders of the code: `o` for the hash-map iterations, layout order and key-id order
    for the two loops of `verify_sublayouts` -/
def seqOrd (o : Ord) : Ord :=
  { perm := fun site {_} l => if site = 2 then l else if site = 3 then sortKid l else o.perm site l }

/-! ### helpers shared by the lemmas and by the specification (`Spec/Verify.lean`) -/

/-- the success part of an outcome -/
def okPart {α : Type} : Out α → Option α
  | .ok a => some a
  | _ => none

/-- all-or-nothing map: the images of all elements, or `none` as soon as one has none -/
def allSome {α β : Type} (f : α → Option β) : List α → Option (List β)
  | [] => some []
  | a :: r =>
    match f a with
    | none => none
    | some b =>
      match allSome f r with
      | none => none
      | some bs => some (b :: bs)

end InToto.Verify
