import InTotoModel.Model.Basic
/-
  JSON values and the canonical encoder of `src/interchange/cjson/mod.rs`.

  `JV`           = `serde_json::Value` (feature set of the repo: no `preserve_order`, no
                   `arbitrary_precision`).  A number is either an integer that fits `i64`/`u64`
                   (`JNum.int`) or anything else (`JNum.nonInt`: serde_json stores it as `f64`).
                   Objects are association lists; the Rust `BTreeMap` semantics (sorted by key,
                   a repeated key keeps the last value) is `normKvs`.
  `canon`        = `Json::canonicalize` = `convert` (rejects non-integers, rebuilds every object as
                   a `BTreeMap`) followed by `Value::write`.
  `escStr`       = serde_json's string escaping, as used by `Value::write` for strings and keys.
  Text is `List Char`; the bytes are its UTF-8 encoding (`Utf8.encode`, injective).
  Key order: Rust compares `String`s bytewise, which for UTF-8 is code-point order = `strLt`.
-/
namespace InToto

inductive JNum where
  | int (i : Int)
  | nonInt
  deriving Repr, DecidableEq

inductive JV where
  | null
  | bool (b : Bool)
  | num (n : JNum)
  | str (s : Str)
  | arr (xs : List JV)
  | obj (kvs : List (Str × JV))
  deriving Repr

namespace Json

/-! ### key order -/

/-- `BTreeMap::insert` on a sorted association list. -/
def insertKV (k : Str) (v : JV) : List (Str × JV) → List (Str × JV)
  | [] => [(k, v)]
  | (k', v') :: r =>
    if strLt k k' then (k, v) :: (k', v') :: r
    else if strLt k' k then (k', v') :: insertKV k v r
    else (k, v) :: r

/-! ### `convert`: rebuild with sorted objects -/

mutual
def norm : JV → JV
  | .arr xs => .arr (normList xs)
  | .obj kvs => .obj (normKvs kvs [])
  | v => v
def normList : List JV → List JV
  | [] => []
  | x :: xs => norm x :: normList xs
def normKvs : List (Str × JV) → List (Str × JV) → List (Str × JV)
  | [], acc => acc
  | (k, v) :: r, acc => normKvs r (insertKV k (norm v) acc)
end

mutual
def hasNonInt : JV → Bool
  | .num .nonInt => true
  | .num (.int i) => !(decide (-(2 ^ 63 : Int) ≤ i) && decide (i < (2 ^ 64 : Int)))
  | .arr xs => hasNonIntList xs
  | .obj kvs => hasNonIntKvs kvs
  | _ => false
def hasNonIntList : List JV → Bool
  | [] => false
  | x :: xs => hasNonInt x || hasNonIntList xs
def hasNonIntKvs : List (Str × JV) → Bool
  | [] => false
  | (_, v) :: r => hasNonInt v || hasNonIntKvs r
end

/-! ### `Value::write` -/

def digitChar (d : Nat) : Char := Char.ofNat (48 + d)

def natDec (n : Nat) : Str :=
  if _h : n < 10 then [digitChar n] else natDec (n / 10) ++ [digitChar (n % 10)]
termination_by n
decreasing_by omega

def intDec : Int → Str
  | .ofNat n => natDec n
  | .negSucc n => '-' :: natDec (n + 1)

def hexLower (n : Nat) : Char := if n < 10 then Char.ofNat (48 + n) else Char.ofNat (87 + n)

/-- serde_json escaping of one character. -/
def escChar (c : Char) : Str :=
  if c = '"' then ['\\', '"']
  else if c = '\\' then ['\\', '\\']
  else if c.toNat < 32 then
    if c.toNat = 8 then ['\\', 'b']
    else if c.toNat = 9 then ['\\', 't']
    else if c.toNat = 10 then ['\\', 'n']
    else if c.toNat = 12 then ['\\', 'f']
    else if c.toNat = 13 then ['\\', 'r']
    else ['\\', 'u', '0', '0', hexLower (c.toNat / 16), hexLower (c.toNat % 16)]
  else [c]

def escBody : Str → Str
  | [] => []
  | c :: cs => escChar c ++ escBody cs

/-- A quoted string whose body is escaped by `E`. -/
def quoteG (E : Str → Str) (s : Str) : Str := '"' :: (E s ++ ['"'])

/- The compact writer, generic in the string-body escaper `E` (serde_json's escaping for
   `Value::write`, the two-escape rule for the reference encoding). -/
mutual
def writeG (E : Str → Str) : JV → Str
  | .null => ['n', 'u', 'l', 'l']
  | .bool true => ['t', 'r', 'u', 'e']
  | .bool false => ['f', 'a', 'l', 's', 'e']
  | .num (.int i) => intDec i
  | .num .nonInt => []          -- unreachable after `convert`
  | .str s => quoteG E s
  | .arr [] => ['[', ']']
  | .arr (x :: xs) => '[' :: (writeG E x ++ writeTailG E xs)
  | .obj [] => ['{', '}']
  | .obj ((k, v) :: r) => '{' :: (quoteG E k ++ (':' :: (writeG E v ++ writeKvsTailG E r)))
def writeTailG (E : Str → Str) : List JV → Str
  | [] => [']']
  | x :: xs => ',' :: (writeG E x ++ writeTailG E xs)
def writeKvsTailG (E : Str → Str) : List (Str × JV) → Str
  | [] => ['}']
  | (k, v) :: r => ',' :: (quoteG E k ++ (':' :: (writeG E v ++ writeKvsTailG E r)))
end

/-- `Value::write` -/
abbrev write : JV → Str := writeG escBody
abbrev escStr : Str → Str := quoteG escBody

/-- `Json::canonicalize`. -/
def canon (v : JV) : Out Str :=
  if hasNonInt v then .err 0 else .ok (write (norm v))

end Json
end InToto
