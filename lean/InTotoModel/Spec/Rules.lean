import InTotoModel.Model.Rules
/-
  The artifact-rule algorithm of the in-toto specification (v0.9 §4.4.x "verify artifact
  rules"), transcribed declaratively over *normalized relative paths* and portable glob patterns:

    for materials, then products, of the item's link:
      queue := all artifact paths
      for each rule, in order:
        REQUIRE p   : fail unless p is in the queue; consumes nothing
        DISALLOW p  : fail if some queued artifact matches p (or p cannot be interpreted);
                      consumes nothing
        otherwise   : remove from the queue every artifact the rule consumes, where, for a
                      queued artifact a,
          ALLOW p   consumes a  iff  a matches p
          CREATE p  consumes a  iff  a matches p, a is a product and not a material
          DELETE p  consumes a  iff  a matches p, a is a material and not a product
          MODIFY p  consumes a  iff  a matches p, a is both, with different digests
          MATCH p [IN s] WITH (MATERIALS|PRODUCTS) [IN d] FROM step
                    consumes a  iff  a = s/b (b = a when there is no s), b matches p, and the
                                     named step's materials/products contain d/b (b when there is
                                     no d) with the same digests as a
    the item passes iff no rule failed (artifacts left in the queue are fine).

  `matches` is glob matching with `*` spanning `/` (fnmatch semantics of the reference
  implementation) — `Glob.globMatch`, whose own meaning is stated declaratively in Props/C03.
-/
namespace InToto.RulesSpec
open InToto.Rules

def find (p : Str) : Artifacts → Option Digest
  | [] => none
  | (k, v) :: r => if k = p then some v else find p r

def has (p : Str) (a : Artifacts) : Bool := (find p a).isSome

def matchesP (pattern path : Str) : Bool := Glob.globMatch pattern path == some true

def withSlash : Option Str → Str
  | none => []
  | some d => d ++ ['/']

structure Ctx where
  kind : ArtKind
  src : LinkArts
  reduced : List (Str × LinkArts)

def Ctx.arts (c : Ctx) : Artifacts :=
  match c.kind with
  | .materials => c.src.materials
  | .products => c.src.products

/-- does `rule` consume the queued artifact `a`? -/
def consumes (c : Ctx) (rule : Rule) (a : Str) : Bool :=
  match rule with
  | .allow p => matchesP p a
  | .create p => matchesP p a && has a c.src.products && !has a c.src.materials
  | .delete p => matchesP p a && has a c.src.materials && !has a c.src.products
  | .modify p =>
    matchesP p a && has a c.src.materials && has a c.src.products
      && find a c.src.materials != find a c.src.products
  | .require _ => false
  | .disallow _ => false
  | .matchR p inSrc with_ inDst from_ =>
    match stripPrefix (withSlash inSrc) a with
    | none => false
    | some b =>
      matchesP p b &&
      match findLink from_ c.reduced with
      | none => false
      | some dst =>
        let dstArts := match with_ with | .materials => dst.materials | .products => dst.products
        match find (withSlash inDst ++ b) dstArts with
        | some d => find a c.arts == some d
        | none => false

def step (c : Ctx) (rule : Rule) (queue : List Str) : Option (List Str) :=
  match rule with
  | .require p => if p ∈ queue then some queue else none
  | .disallow p =>
    if (Glob.parse p).isNone then none
    else if queue.any (matchesP p) then none else some queue
  | _ => some (queue.filter fun a => !consumes c rule a)

def run (c : Ctx) : List Rule → List Str → Bool
  | [], _ => true
  | rule :: rest, queue =>
    match step c rule queue with
    | some q => run c rest q
    | none => false

def verdict (item : Item) (reduced : List (Str × LinkArts)) : Bool :=
  match findLink item.name reduced with
  | none => false
  | some src =>
    run ⟨.materials, src, reduced⟩ item.expMaterials (src.materials.map Prod.fst)
      && run ⟨.products, src, reduced⟩ item.expProducts (src.products.map Prod.fst)

/-! hypotheses under which the specification speaks -/

/-- a normalized relative path: cleaning does not change it, it is not `.`, it is not absolute -/
def NormPath (p : Str) : Bool :=
  canonPath p == p && p != ['.'] && p.head? != some '/' && !p.isEmpty

def NormArts (a : Artifacts) : Bool :=
  a.all (fun e => NormPath e.1) && (a.map Prod.fst).eraseDups.length == a.length

def normPrefix : Option Str → Bool
  | none => true
  | some d => NormPath d

def PortableRule : Rule → Bool
  | .matchR _ s _ d _ => normPrefix s && normPrefix d
  | _ => true

def Normalized (item : Item) (reduced : List (Str × LinkArts)) : Bool :=
  reduced.all (fun e => NormArts e.2.materials && NormArts e.2.products)
    && item.expMaterials.all PortableRule && item.expProducts.all PortableRule

end InToto.RulesSpec
