import InTotoModel.Model.Verify
/-
  Specification of final-product verification (in-toto specification, section 5.2, as implemented by
  `in_toto_verify`), written without accumulators, without insertion into tables and without any
  iteration order: every clause is a condition on the inputs or a plain selection from them.

  `accepts` answers `some summary` exactly when verification succeeds.  `Lemmas/VerifySpec.lean`
  proves `okPart (verify env ord fuel …).1 = accepts env fuel …` for every valid family of iteration
  orders - soundness and completeness of the code-shaped model `Model/Verify.lean` with respect to
  this text; the pipeline theorems of C01 C02 C06 C07 C08 C13 C15 are corollaries
  (`Props/VerifySpec.lean`).  The function is executable: the driver prints its verdict next to the
  model's for every scenario of the correspondence check.

  The clauses, for a signed block `b`, caller keys `keys` and link directory `dir`:
   1. `b` holds a layout; there is at least one caller key, no two of them have the same key id, and
      every one of them has a valid signature on `b` listed under its own id      (`ownersSigned`)
   2. the layout has not expired
   3. the step names are pairwise distinct and usable as file-name patterns; every file of the
      directory that is named like evidence of a step can be read
   4. per step, the evidence is: for each key id, the last file `<step>.<8 characters>.link` filed
      under it - a file is filed under the id of its first signature whose id starts with the eight
      characters in the file name (`evidence`); it counts if that id is listed for the step, names a
      key of the layout's key table and that key has validly signed it (`counts`); at least
      `threshold`, and at least one, pieces of evidence count
   5. every piece of counted evidence stands for a link: itself, or - if it is a layout - the
      summary of its own complete verification with the one key it was filed under, against the
      sub-directory `<step>.<first eight characters of the key id>`, under the step's name
   6. for a step with threshold ≥ 2 all those links report the same materials and products
   7. the step is represented by the link of the smallest key id; every step's rules hold on the
      representatives
   8. every inspection command runs and exits with status 0; the links they record join the table
      (an inspection named like a step or like an earlier inspection takes that entry over), and
      every inspection's rules hold on it
   9. the summary: the requested name, the first step's materials, the last step's products and
      remaining members (looked up in that table); an empty link for a layout without steps.
-/
namespace InToto.VerifySpec
open InToto InToto.Verify InToto.Rules InToto.Threshold

variable {K : Type}

/-- the signature value a block lists for key id `kid` (the last one, should the id be repeated) -/
def sigFor (b : Block K) (kid : Str) : Option Bytes :=
  lastFind kid (b.sigs.map fun s => (s.kid, s.val))

/-- key `k` has validly signed block `b`, the signature being listed under the key's own id -/
def signedBy (env : Env K) (b : Block K) (k : K) : Bool :=
  match sigFor b (env.kidOf k) with
  | some v => env.valid k b.signed v
  | none => false

def distinct : List Str → Bool
  | [] => true
  | a :: r => !r.contains a && distinct r

/-- clause 1 -/
def ownersSigned (env : Env K) (b : Block K) (keys : List K) : Bool :=
  !keys.isEmpty && distinct (keys.map env.kidOf) && keys.all (signedBy env b)

/-- the key id a file of the link directory is filed under, as evidence of step `stepName` -/
def filedUnder (stepName : Str) (f : Str × FileC K) : Option (Str × Block K) :=
  if matchesStepFile stepName f.1 then
    match f.2 with
    | .block b => (b.sigs.find? fun s => prefix8 s.kid = fileShortId stepName f.1).map fun s => (s.kid, b)
    | .unreadable => none
  else none

/-- clause 4: the evidence of a step, one entry per key id (the last file filed under it) -/
def evidence (dir : Dir K) (stepName : Str) : List (Str × Block K) :=
  dedupLast (dir.files.filterMap (filedUnder stepName))

/-- clause 3: every file named like evidence of the step can be read -/
def readable (dir : Dir K) (stepName : Str) : Bool :=
  dir.files.all fun f => !matchesStepFile stepName f.1 || (match f.2 with | .unreadable => false | .block _ => true)

/-- clause 4: does this piece of evidence count for step `st`? -/
def counts (env : Env K) (L : Layout K) (st : Step) (e : Str × Block K) : Bool :=
  decide (e.1 ∈ st.pubkeys) &&
    match lookup e.1 L.keys with
    | some k => signedBy env e.2 k
    | none => false

section oneLevel
-- `sub`: the verdict on delegated layouts (one level further down)
variable (sub : List Str → Block K → List K → Dir K → Str → Option Link)

/-- clause 5: the link a piece of evidence stands for -/
def standsFor (path : List Str) (L : Layout K) (dir : Dir K) (stepName : Str) (e : Str × Block K) :
    Option (Str × Link) :=
  match e.2.signed with
  | .link l => some (e.1, l)
  | .layout _ =>
    match lookup e.1 L.keys with
    | none => none
    | some k =>
      let d := stepName ++ '.' :: prefix8 e.1
      (sub (path ++ [d]) e.2 [k] (subDirOf dir d) stepName).map fun l => (e.1, l)

/-- clauses 4 and 5 for one step: its links, by key id -/
def stepLinks (env : Env K) (path : List Str) (L : Layout K) (dir : Dir K) (st : Step) :
    Option (Step × List (Str × Link)) :=
  let ev := (evidence dir st.name).filter (counts env L st)
  if ev.length < st.threshold then none
  else (allSome (standsFor sub path L dir st.name) ev).map fun ls => (st, ls)

/-- clause 6 -/
def agreeing (v : Step × List (Str × Link)) : Bool :=
  decide (v.1.threshold ≤ 1) || v.2.all fun e => v.2.all fun e' => agree e.2 e'.2

/-- clause 7: the representative of a step - the link of the smallest key id; a step without any
    counted evidence (possible with threshold 0 only) has none, which is clause 4's "at least one" -/
def representative (v : Step × List (Str × Link)) : Option (Str × Link) :=
  (minEntry v.2).map fun m => (v.1.name, m.2)

/-- clause 8: what an inspection contributes -/
def inspected (env : Env K) (path : List Str) (i : Insp) : Option (Str × Link) :=
  match env.run path i with
  | some (status, l) => if status = 0 then some (i.name, l) else none
  | none => none

def rulesHold (table : List (Str × Link)) (items : List Item) : Bool :=
  items.all fun it => (applyRulesOnLink it (artsTable table)).isOk

/-- one level of the specification -/
def acceptsStep (env : Env K) (path : List Str) (b : Block K) (keys : List K) (dir : Dir K) (name : Str) :
    Option Link :=
  match b.signed with
  | .link _ => none
  | .layout L =>
    if !ownersSigned env b keys then none                                                    -- 1
    else if L.expires < env.now path then none                                              -- 2
    else if !distinct (L.steps.map Step.name) then none                                     -- 3
    else if !(L.steps.all fun st => globSafe st.name && stepPatternOk st.name && readable dir st.name) then none
    else
      (allSome (stepLinks sub env path L dir) L.steps).bind fun links =>                    -- 4, 5
      if !links.all agreeing then none                                                      -- 6
      else
        (allSome representative links).bind fun reps =>                                     -- 7
        if !rulesHold reps (L.steps.map stepItem) then none
        else
          (allSome (inspected env path) L.inspect).bind fun insp =>                         -- 8
          let table := insp.reverse ++ reps     -- looked up from the front: the last inspection of a name first
          if !rulesHold table (L.inspect.map inspItem) then none
          else okPart (summary L table name)                                                -- 9

end oneLevel

/-- the specification: `fuel` bounds the depth of delegation that is followed -/
def accepts (env : Env K) : Nat → List Str → Block K → List K → Dir K → Str → Option Link
  | 0 => fun _ _ _ _ _ => none
  | fuel + 1 => acceptsStep (accepts env fuel) env

end InToto.VerifySpec
