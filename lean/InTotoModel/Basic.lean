def hello := "world"
