import InTotoModel.Model.Digest
import InTotoModel.Lemmas.Md
/-
  C18 — "whose digest for each requested algorithm equals the standard digest of the file's bytes":
  the streaming computation of `calculate_hashes` (a context per algorithm, fed with whatever each
  `read` call returned, 1024 bytes at most, possibly far fewer) yields the one-shot digest of the
  bytes read, for *every* way the reader cuts the input into chunks - the part a test can only
  sample (a file is read in full buffers, a pipe or a slow reader is not).
-/
namespace InToto.C18Digest
open InToto InToto.Md InToto.Digest

theorem sha256_block_pos : 0 < Sha256.alg.block := by decide
theorem sha512_block_pos : 0 < Sha512.alg.block := by decide

/-- For one algorithm: the size and the digest of everything read up to the end of input (the first
    empty read), whatever the chunk sizes; an error exactly when a read fails before that. -/
theorem c18_streamed_digest_is_the_digest_of_the_bytes (a : HashAlg) (reads : List ReadRes) :
    calcOne a reads = (consumed reads).map fun xs => (xs.flatten.length, digest a xs.flatten) := by
  cases a with
  | sha256 => exact calcHash_eq Sha256.alg sha256_block_pos reads
  | sha512 => exact calcHash_eq Sha512.alg sha512_block_pos reads

/-- The digest does not depend on how the bytes were cut: two readers that deliver the same bytes
    give the same digests and size. -/
theorem c18_digest_independent_of_chunking (a : HashAlg) (xs ys : List Bytes)
    (hx : ∀ b ∈ xs, b.isEmpty = false) (hy : ∀ b ∈ ys, b.isEmpty = false) (h : xs.flatten = ys.flatten) :
    calcOne a (xs.map .data) = calcOne a (ys.map .data) := by
  have hc : ∀ zs : List Bytes, (∀ b ∈ zs, b.isEmpty = false) → consumed (zs.map .data) = some zs := by
    intro zs hz
    induction zs with
    | nil => rfl
    | cons z zs ih =>
      simp only [List.map_cons, consumed, hz z (by simp), Bool.false_eq_true, if_false,
        ih (fun b hb => hz b (by simp [hb])), Option.map_some]
  rw [c18_streamed_digest_is_the_digest_of_the_bytes, c18_streamed_digest_is_the_digest_of_the_bytes, hc xs hx, hc ys hy]
  simp only [Option.map_some, h]

/-- `calculate_hashes` as a whole: no algorithm requested is an error; otherwise every requested
    algorithm (once, however often it is named) gets the digest of the bytes read. -/
theorem c18_calculate_hashes (algs : List HashAlg) (reads : List ReadRes) (hne : algs ≠ []) :
    calcHashes algs reads = (consumed reads).map fun xs =>
      (xs.flatten.length,
        (if .sha256 ∈ algs then [(HashAlg.sha256, digest .sha256 xs.flatten)] else []) ++
        (if .sha512 ∈ algs then [(HashAlg.sha512, digest .sha512 xs.flatten)] else [])) := by
  unfold calcHashes
  have he : algs.isEmpty = false := by cases algs with
    | nil => exact absurd rfl hne
    | cons _ _ => rfl
  rw [he]
  simp only [Bool.false_eq_true, if_false, c18_streamed_digest_is_the_digest_of_the_bytes]
  cases consumed reads with
  | none => rfl
  | some xs => rfl

theorem c18_no_algorithm_is_an_error (reads : List ReadRes) : calcHashes [] reads = none := rfl

/-- The padded message is a whole number of blocks: the iteration leaves no byte of the message (nor
    of its length field) outside the digest. -/
theorem c18_padded_message_is_whole_blocks (msg : Bytes) :
    (msg ++ Sha256.padTail msg.length).length % 64 = 0 ∧ (msg ++ Sha512.padTail msg.length).length % 128 = 0 := by
  simp only [Sha256.padTail, Sha512.padTail, List.length_append, List.length_cons, List.length_nil,
    List.length_replicate, List.length_map, List.length_range]
  constructor <;> omega

/- Non-vacuity / sanity: "abc" delivered as "a", "bc" has the well-known SHA-256 digest (kernel-evaluated
   is too slow for the compression function; this is checked by `#eval` in the driver's differential). -/

end InToto.C18Digest
