import InTotoModel.Lemmas.Events
import InTotoModel.Generated.Pipeline
/-
  C08 — Inspections run only after a layout's steps verify, and their failure is fatal.

  The pipeline model returns, next to its result, the trace of `inspectionStarted layoutPath name`
  events: one for every inspection command that was actually started (`env.run` returned an exit
  status).  `env.run path i = none` means the command could not be started (or recording failed):
  no command ran.  What the started process does to the file system, the working directory and the
  link file written afterwards is runtime behaviour outside the model (sampled by the harness).
-/
namespace InToto.Verify

variable {K : Type}

/-- An inspection of the layout at `path` is started only after that layout has passed its
    signature and expiry checks and all of its steps have passed link loading, the signature
    thresholds, sub-layout verification, the agreement check and their artifact rules. -/
theorem c08_inspection_only_after_steps_verified (env : Env K) (ord : Ord) (fuel : Nat)
    (path : List Str) (b : Block K) (keys : List K) (dir : Dir K) (name : Str)
    (e : Event) (he : e ∈ (verify env ord (fuel + 1) path b keys dir name).2) (hp : e.path = path) :
    Nonempty (PrePassed env ord fuel path b keys dir) := by
  rcases verify_cases env ord fuel (verify_evBelow env ord fuel) path b keys dir name with ⟨_, h⟩ | ⟨p, _⟩
  · exact absurd hp (h e he).2
  · exact ⟨p⟩

/-- Whenever verification fails before the inspection stage, no inspection command of that layout
    has been executed (every recorded event belongs to a layout strictly below it). -/
theorem c08_no_inspection_if_earlier_stage_fails (env : Env K) (ord : Ord) (fuel : Nat)
    (path : List Str) (b : Block K) (keys : List K) (dir : Dir K) (name : Str)
    (hfail : ¬ Nonempty (PrePassed env ord fuel path b keys dir)) :
    (∀ s, (verify env ord (fuel + 1) path b keys dir name).1 ≠ .ok s) ∧
      ∀ e ∈ (verify env ord (fuel + 1) path b keys dir name).2, e.path ≠ path := by
  rcases verify_cases env ord fuel (verify_evBelow env ord fuel) path b keys dir name with ⟨h1, h2⟩ | ⟨p, _⟩
  · exact ⟨h1, fun e he => (h2 e he).2⟩
  · exact absurd ⟨p⟩ hfail

theorem runInspections_ok {env : Env K} {path : List Str} (insps : List Insp) (acc : List (Str × Link))
    (ev : List Event) {r : List (Str × Link)} {ev' : List Event}
    (h : runInspections env path insps acc ev = (.ok r, ev')) :
    ∀ i ∈ insps, ∃ l, env.run path i = some (0, l) := by
  induction insps generalizing acc ev with
  | nil => simp
  | cons i rest ih =>
    simp only [runInspections] at h
    split at h
    · simp at h
    · rename_i status l hrun
      split at h
      · simp at h
      · rename_i hz
        intro j hj
        simp only [List.mem_cons] at hj
        rcases hj with rfl | hj
        · have : status = 0 := by
            apply Classical.byContradiction
            intro hne; exact hz hne
          subst this
          exact ⟨l, hrun⟩
        · exact ih _ _ h j hj

/-- Once inspections run, success requires every inspection command to have been started and to
    have exited with status 0: a non-zero exit status (or a command that cannot be started) makes
    verification fail. -/
theorem c08_nonzero_exit_is_fatal {env : Env K} {ord : Ord}
    {fuel : Nat} {path : List Str} {b : Block K} {keys : List K} {dir : Dir K} {name : Str} {s : Link}
    (h : (verify env ord (fuel + 1) path b keys dir name).1 = .ok s) :
    ∃ p : Passed env ord fuel path b keys dir name s,
      ∀ i ∈ p.L.inspect, ∃ l, env.run path i = some (0, l) := by
  obtain ⟨p⟩ := verify_ok_inv h
  exact ⟨p, runInspections_ok _ _ _ p.hinsp⟩

theorem itemRules_ok {errc : Nat} {reduced : List (Str × Link)} {items : List Rules.Item}
    (h : itemRules errc reduced items = .ok ()) :
    ∀ it ∈ items, Rules.applyRulesOnLink it (artsTable reduced) = .ok () := by
  induction items with
  | nil => simp
  | cons it rest ih =>
    simp only [itemRules] at h
    split at h
    · rename_i hok
      intro j hj
      simp only [List.mem_cons] at hj
      rcases hj with rfl | hj
      · exact hok
      · exact ih h j hj
    · cases h
    · cases h

/-- The recorded materials and products of every inspection are subject to the inspection's
    artifact rules, exactly like those of a step: success requires the rule engine to accept every
    inspection against the table of step links extended by the inspections' own links. -/
theorem c08_inspection_rules_enforced {env : Env K} {ord : Ord}
    {fuel : Nat} {path : List Str} {b : Block K} {keys : List K} {dir : Dir K} {name : Str} {s : Link}
    (h : (verify env ord (fuel + 1) path b keys dir name).1 = .ok s) :
    ∃ p : Passed env ord fuel path b keys dir name s,
      (∀ st ∈ p.L.steps, Rules.applyRulesOnLink (stepItem st) (artsTable p.reduced) = .ok ()) ∧
      (∀ i ∈ p.L.inspect,
        Rules.applyRulesOnLink (inspItem i) (artsTable (extend p.reduced p.inspLinks)) = .ok ()) := by
  obtain ⟨p⟩ := verify_ok_inv h
  refine ⟨p, ?_, ?_⟩
  · intro st hst
    exact itemRules_ok p.hrules _ (List.mem_map.mpr ⟨st, hst, rfl⟩)
  · intro i hi
    exact itemRules_ok p.hirules _ (List.mem_map.mpr ⟨i, hi, rfl⟩)

/-- **Tie to the source.**  `Generated.pipelineStages` is read from the body of `in_toto_verify`
    (src/verifylib.rs) on every run by translate/pipeline.py - calls to helper functions replaced by
    the stage calls of their bodies.  The source has exactly the stages of the model `verify`, in the
    model's order - in particular the artifact rules of the steps are checked before any inspection
    is run, and the inspections' rules after - every stage is straight-line code (no stage is
    conditional) and propagates its error, and the only `return` is the "not a layout" rejection. -/
theorem c08_source_has_the_modelled_stage_order :
    Generated.pipelineStages.map (fun s => s.callee) =
      ["verify_layout_signatures", "verify_layout_expiration", "load_links_for_layout",
       "verify_link_signature_thresholds", "verify_sublayouts", "verify_all_steps_command_alignment",
       "verify_threshold_constraints", "reduce_chain_links", "verify_all_item_rules", "run_all_inspections",
       "verify_all_item_rules", "get_summary_link"] ∧
    Generated.pipelineStages.all (fun s => s.propagates && s.depth == 0) = true ∧
    Generated.pipelineReturns.length = 1 := by decide

end InToto.Verify
