import InTotoModel.Lemmas.Determinism
/-
  A concrete scenario on which verification succeeds, checked by the kernel (`decide` through the
  structural evaluator `verifyC`, then `verify_ok_of_verifyC`).  It is the witness that the
  hypothesis shared by the pipeline theorems of C01 C02 C06 C07 C08 C13 C15 -
  `(verify env ord fuel path b keys dir name).1 = .ok s` - is satisfiable by a non-trivial input:
  one owner, a step with threshold 2 and two agreeing links, a step delegated to a sub-layout that
  is verified in its own sub-directory, a MATCH rule between steps, and an inspection.
-/
namespace InToto.Verify.Scenario
open InToto InToto.Verify InToto.Rules InToto.Threshold

def kO : Str := "oooooooo11".toList
def kB : Str := "bbbbbbbbcc".toList
def kC : Str := "cccccccc22".toList

def d7 : Digest := [("sha256".toList, [7])]
def d8 : Digest := [("sha256".toList, [8])]

def untarLink : Link :=
  { name := "untar".toList,
    arts := { materials := [("pkg.tgz".toList, d8)], products := [("pkg.tgz".toList, d8), ("out".toList, d7)] },
    extra := [] }

/-- keys are numbers: 0 the owner, 1 functionary B, 2 functionary C; a signature value is valid
    under key `k` iff it is the one byte `k`; the clock reads 100; the inspection exits with 0 -/
def env : Env Nat :=
  { kidOf := fun k => if k = 0 then kO else if k = 1 then kB else kC
    valid := fun k _ v => v = [UInt8.ofNat k]
    now := fun _ => 100
    run := fun _ _ => some (0, untarLink) }

def buildLink : Link :=
  { name := "build".toList, arts := { materials := [], products := [("out".toList, d7)] }, extra := [1, 2] }
def innerLink : Link :=
  { name := "inner".toList,
    arts := { materials := [("out".toList, d7)], products := [("out".toList, d7), ("pkg.tgz".toList, d8)] },
    extra := [3] }

def subLayout : Layout Nat :=
  { expires := 150, keys := [(kC, 2)],
    steps := [{ name := "inner".toList, threshold := 1, pubkeys := [kC],
                expMaterials := [.allow "*".toList], expProducts := [.allow "*".toList] }],
    inspect := [] }

def layout : Layout Nat :=
  { expires := 200, keys := [(kB, 1), (kC, 2)],
    steps :=
      [{ name := "build".toList, threshold := 2, pubkeys := [kB, kC],
         expMaterials := [.disallow "*".toList],
         expProducts := [.create "out".toList, .disallow "*".toList] },
       { name := "pkg".toList, threshold := 1, pubkeys := [kB],
         expMaterials := [.matchR "out".toList none .products none "build".toList, .disallow "*".toList],
         expProducts := [.create "pkg.tgz".toList, .allow "out".toList, .disallow "*".toList] }],
    inspect :=
      [{ name := "untar".toList,
         expMaterials := [.matchR "pkg.tgz".toList none .products none "pkg".toList, .disallow "*".toList],
         expProducts := [.allow "*".toList] }] }

def block : Block Nat := { sigs := [{ kid := kO, val := [0] }], signed := .layout layout }
def subBlock : Block Nat := { sigs := [{ kid := kB, val := [1] }], signed := .layout subLayout }

def subDir : Dir Nat :=
  .mk [("inner.cccccccc.link".toList, .block { sigs := [{ kid := kC, val := [2] }], signed := .link innerLink })] []

def dir : Dir Nat :=
  .mk [("build.bbbbbbbb.link".toList, .block { sigs := [{ kid := kB, val := [1] }], signed := .link buildLink }),
       ("build.cccccccc.link".toList, .block { sigs := [{ kid := kC, val := [2] }], signed := .link buildLink }),
       ("pkg.bbbbbbbb.link".toList, .block subBlock)]
      [("pkg.bbbbbbbb".toList, subDir)]

def idOrd : Ord := { perm := fun _ {_} l => l }
def revOrd : Ord := { perm := fun _ {_} l => l.reverse }

theorem idOrd_valid : idOrd.Valid := fun _ _ l => List.Perm.refl l
theorem revOrd_valid : revOrd.Valid := fun _ _ l => List.reverse_perm l

def summaryLink : Link :=
  { name := "final".toList,
    arts := { materials := [], products := [("out".toList, d7), ("pkg.tgz".toList, d8)] },
    extra := [3] }

theorem verifies_id : (verify env idOrd 2 [] block [0] dir "final".toList).1 = .ok summaryLink :=
  verify_ok_of_verifyC (by decide)

theorem verifies_rev : (verify env revOrd 2 [] block [0] dir "final".toList).1 = .ok summaryLink :=
  verify_ok_of_verifyC (by decide)

/-- the two orders really differ -/
theorem orders_differ : idOrd.perm 0 [(kB, 1), (kC, 2)] ≠ revOrd.perm 0 [(kB, 1), (kC, 2)] := by decide

/-- negative controls: the same scenario fails once the layout is expired, when one of the two
    `build` links dissents, and when the sub-layout's own link is missing from its sub-directory -/
theorem expired_fails : verifyC { env with now := fun _ => 201 } idOrd 2 [] block [0] dir "final".toList = none := by
  decide

def dissentLink : Link :=
  { name := "build".toList, arts := { materials := [], products := [("out".toList, d8)] }, extra := [1, 2] }

def dissentDir : Dir Nat :=
  .mk [("build.bbbbbbbb.link".toList, .block { sigs := [{ kid := kB, val := [1] }], signed := .link buildLink }),
       ("build.cccccccc.link".toList, .block { sigs := [{ kid := kC, val := [2] }], signed := .link dissentLink }),
       ("pkg.bbbbbbbb.link".toList, .block subBlock)]
      [("pkg.bbbbbbbb".toList, subDir)]

theorem dissent_fails : verifyC env idOrd 2 [] block [0] dissentDir "final".toList = none := by decide

def noSubDir : Dir Nat := .mk dir.files []

theorem missing_sublayout_evidence_fails : verifyC env idOrd 2 [] block [0] noSubDir "final".toList = none := by
  decide

/-! an inspection whose rules refer to an inspection the layout lists AFTER it: `check` requires its
    `pkg.tgz` to be the one `untar` (listed later) saw, and forbids any other -/

def checkInsp : Insp :=
  { name := "check".toList,
    expMaterials := [.matchR "pkg.tgz".toList none .materials none "untar".toList, .disallow "pkg.tgz".toList,
                     .allow "*".toList],
    expProducts := [.allow "*".toList] }

def layoutLater : Layout Nat := { layout with inspect := checkInsp :: layout.inspect }
def layoutEarlier : Layout Nat := { layout with inspect := layout.inspect ++ [checkInsp] }
def layoutAlone : Layout Nat := { layout with inspect := [checkInsp] }
def blockLater : Block Nat := { sigs := [{ kid := kO, val := [0] }], signed := .layout layoutLater }
def blockEarlier : Block Nat := { sigs := [{ kid := kO, val := [0] }], signed := .layout layoutEarlier }
def blockAlone : Block Nat := { sigs := [{ kid := kO, val := [0] }], signed := .layout layoutAlone }

theorem verifies_match_from_later_inspection :
    (verify env idOrd 2 [] blockLater [0] dir "final".toList).1 = .ok summaryLink :=
  verify_ok_of_verifyC (by decide)

theorem verifies_match_from_earlier_inspection :
    (verify env idOrd 2 [] blockEarlier [0] dir "final".toList).1 = .ok summaryLink :=
  verify_ok_of_verifyC (by decide)

/-- the other inspection's link decides: without it in the table, `check`'s rules fail -/
theorem fails_without_the_other_inspection : verifyC env idOrd 2 [] blockAlone [0] dir "final".toList = none := by
  decide

end InToto.Verify.Scenario
