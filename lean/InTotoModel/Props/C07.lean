import InTotoModel.Lemmas.Verify
/-
  C07 — Multi-party steps require identical recorded artifacts from all signers.

  `p.links` is the table of all validly signed, authorized links per step (sub-layout evidence
  replaced by its summary link), as produced by stages 3-5.
-/
namespace InToto.Verify

variable {K : Type}

theorem checkAgreement_spec {ord : Ord} (hord : ord.Valid) {links : List (Str × List (Str × Link))} {steps : List Step}
    (h : checkAgreement ord links steps = .ok ()) :
    ∀ st ∈ steps, 2 ≤ st.threshold →
      ∃ per, lookup st.name links = some per ∧ st.threshold ≤ per.length ∧
        ∀ e1 ∈ per, ∀ e2 ∈ per,
          e1.2.arts.materials = e2.2.arts.materials ∧ e1.2.arts.products = e2.2.arts.products := by
  induction steps with
  | nil => simp
  | cons st rest ih =>
    simp only [checkAgreement] at h
    intro s' hs' ht
    split at h
    · rename_i hle
      simp only [List.mem_cons] at hs'
      rcases hs' with rfl | hs'
      · omega
      · exact ih h s' hs' ht
    · split at h
      · cases h
      · rename_i per hper
        split at h
        · cases h
        · rename_i hlen
          split at h
          · cases h
          · rename_i kid ref href
            split at h
            · rename_i hall
              simp only [List.mem_cons] at hs'
              rcases hs' with rfl | hs'
              · refine ⟨per, hper, by omega, ?_⟩
                intro e1 h1 e2 h2
                have a1 := List.all_eq_true.mp hall e1 h1
                have a2 := List.all_eq_true.mp hall e2 h2
                simp only [agree, Bool.and_eq_true, decide_eq_true_eq] at a1 a2
                exact ⟨a1.1.trans a2.1.symm, a1.2.trans a2.2.symm⟩
              · exact ih h s' hs' ht
            · cases h

/-- Success implies that for every step requiring more than one functionary, all verified links of
    the step report exactly the same materials and the same products. -/
theorem c07_multi_party_links_agree {env : Env K} {ord : Ord} (hord : ord.Valid)
    {fuel : Nat} {path : List Str} {b : Block K} {keys : List K} {dir : Dir K} {name : Str} {s : Link}
    (h : (verify env ord (fuel + 1) path b keys dir name).1 = .ok s) :
    ∃ p : Passed env ord fuel path b keys dir name s,
      ∀ st ∈ p.L.steps, 2 ≤ st.threshold →
        ∃ per, lookup st.name p.links = some per ∧ st.threshold ≤ per.length ∧
          ∀ e1 ∈ per, ∀ e2 ∈ per,
            e1.2.arts.materials = e2.2.arts.materials ∧ e1.2.arts.products = e2.2.arts.products := by
  obtain ⟨p⟩ := verify_ok_inv h
  exact ⟨p, checkAgreement_spec hord p.hagree⟩

/-- A single dissenting link makes the agreement stage fail. -/
theorem c07_dissent_fails {ord : Ord} (hord : ord.Valid) (links : List (Str × List (Str × Link))) (steps : List Step)
    (st : Step) (hst : st ∈ steps) (ht : 2 ≤ st.threshold) (per : List (Str × Link))
    (hper : lookup st.name links = some per) (e1 e2 : Str × Link) (h1 : e1 ∈ per) (h2 : e2 ∈ per)
    (hdiff : e1.2.arts.materials ≠ e2.2.arts.materials ∨ e1.2.arts.products ≠ e2.2.arts.products) :
    checkAgreement ord links steps ≠ .ok () := by
  intro h
  obtain ⟨per', hper', _, hall⟩ := checkAgreement_spec hord h st hst ht
  rw [hper] at hper'
  cases hper'
  have := hall e1 h1 e2 h2
  rcases hdiff with d | d
  · exact d this.1
  · exact d this.2

end InToto.Verify
