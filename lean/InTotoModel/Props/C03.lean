import InTotoModel.Lemmas.RulesRefine
/-
  C03 — Artifact rules are enforced as the in-toto specification prescribes.

  Model: `InToto.Rules.applyRulesOnLink` (src/rulelib.rs).  Specification: `InToto.RulesSpec.verdict`
  (Spec/Rules.lean).  Proved here, for all inputs: the code-shaped engine (canonicalised path sets,
  `created`/`deleted`/`modified`, text-level prefix handling, `PathBuf::push` joins, last-wins map
  lookups) returns `Ok` exactly when the specification's algorithm accepts, on normalized relative
  paths and portable rules (`c03_refines_spec`); plus the two safety clauses of the statement without
  any hypothesis.  `glob` and `path_clean` enter as the library models `Glob.globMatch` /
  `PathClean.clean` (validated differentially).
-/
namespace InToto.Rules

/-- An artifact is consumed by a MATCH rule only if it lies under the rule's source prefix and the
    remainder matches the rule's pattern. -/
theorem c03_match_consumes_only_matching (pattern : Str) (inSrc : Option Str) (with_ : ArtKind)
    (inDst : Option Str) (from_ : Str) (arts : Artifacts) (queue : List Str)
    (reduced : List (Str × LinkArts)) (a : Str)
    (h : a ∈ verifyMatch pattern inSrc with_ inDst from_ arts queue reduced) :
    a ∈ queue ∧ ∃ base, stripPrefix (prefixOf inSrc) a = some base ∧ pathMatches pattern base = some true := by
  unfold verifyMatch at h
  split at h
  · simp at h
  · simp only [List.mem_filter] at h
    refine ⟨h.1, ?_⟩
    have h2 := h.2
    split at h2
    · cases h2
    · rename_i base hb
      refine ⟨base, hb, ?_⟩
      split at h2
      · assumption
      · cases h2

/-- An artifact is never consumed by a rule whose pattern (and, for MATCH, source prefix) it does
    not match: whatever a rule consumes was in the queue and matches. -/
theorem c03_consumed_matches (rule : Rule) (arts : Artifacts) (created deleted modified queue : List Str)
    (reduced : List (Str × LinkArts)) (consumed : List Str)
    (h : applyRule rule arts created deleted modified queue reduced = .ok consumed) (a : Str) (ha : a ∈ consumed) :
    a ∈ queue ∧
      match rule with
      | .matchR pattern inSrc _ _ _ =>
        ∃ base, stripPrefix (prefixOf inSrc) a = some base ∧ pathMatches pattern base = some true
      | r => pathMatches r.pattern a = some true := by
  cases rule with
  | matchR pattern inSrc with_ inDst from_ =>
    simp only [applyRule] at h
    cases h
    exact c03_match_consumes_only_matching pattern inSrc with_ inDst from_ arts queue reduced a ha
  | require p =>
    simp only [applyRule] at h
    split at h
    · cases h; simp at ha
    · cases h
  | disallow p =>
    simp only [applyRule] at h
    split at h
    · cases h
    · split at h
      · cases h; simp at ha
      · cases h
  | create p =>
    simp only [applyRule] at h; cases h
    simp only [List.mem_filter] at ha
    exact ⟨ha.1.1, by simpa [Rule.pattern] using ha.1.2⟩
  | delete p =>
    simp only [applyRule] at h; cases h
    simp only [List.mem_filter] at ha
    exact ⟨ha.1.1, by simpa [Rule.pattern] using ha.1.2⟩
  | modify p =>
    simp only [applyRule] at h; cases h
    simp only [List.mem_filter] at ha
    exact ⟨ha.1.1, by simpa [Rule.pattern] using ha.1.2⟩
  | allow p =>
    simp only [applyRule] at h; cases h
    simp only [List.mem_filter] at ha
    exact ⟨ha.1, by simpa [Rule.pattern] using ha.2⟩

/-- A DISALLOW rule whose pattern cannot be interpreted makes verification fail as soon as it is
    reached, whatever is (or is not) in the queue — it is never silently skipped. -/
theorem c03_uninterpretable_disallow_fails (p : Str) (hp : Glob.parse p = none) (rest : List Rule)
    (arts : Artifacts) (created deleted modified queue : List Str) (reduced : List (Str × LinkArts)) :
    applyRules (.disallow p :: rest) arts created deleted modified reduced queue = .err 9 := by
  simp [applyRules, applyRule, hp]

/-- A DISALLOW rule fails exactly when some queued artifact matches it (interpretable pattern). -/
theorem c03_disallow_iff (p : Str) (hp : (Glob.parse p).isSome) (arts : Artifacts)
    (created deleted modified queue : List Str) (reduced : List (Str × LinkArts)) :
    applyRule (.disallow p) arts created deleted modified queue reduced = .ok [] ↔
      ∀ a ∈ queue, pathMatches p a ≠ some true := by
  have hn : (Glob.parse p).isNone = false := by
    cases h : Glob.parse p <;> simp_all
  simp only [applyRule, hn, Bool.false_eq_true, if_false, Rule.pattern]
  by_cases he : (queue.filter fun q => pathMatches p q == some true) = []
  · simp only [he, List.isEmpty_nil, if_true, true_iff]
    intro a ha hm
    have : a ∈ queue.filter fun q => pathMatches p q == some true :=
      List.mem_filter.mpr ⟨ha, by simp [hm]⟩
    rw [he] at this
    simp at this
  · have hne : (queue.filter fun q => pathMatches p q == some true).isEmpty = false := by
      cases hq : queue.filter fun q => pathMatches p q == some true with
      | nil => exact absurd hq he
      | cons _ _ => rfl
    simp only [hne, Bool.false_eq_true, if_false]
    constructor
    · intro h; cases h
    · intro h
      exfalso
      apply he
      apply List.filter_eq_nil_iff.mpr
      intro a ha
      simpa using h a ha

open InToto.RulesSpec in
/-- Refinement: for every item, every ordered rule list (any mix of the seven kinds, with and
    without IN prefixes) and every link table, the accept/reject decision of the code equals the
    outcome of the specification's rule-processing algorithm — provided the recorded paths are
    normalized relative paths without duplicates (`NormTableP`) and MATCH prefixes are non-empty
    relative directory names (`PortableRuleP`). -/
theorem c03_refines_spec (item : Item) (reduced : List (Str × LinkArts))
    (ht : NormTableP reduced)
    (hrm : ∀ r ∈ item.expMaterials, PortableRuleP r) (hrp : ∀ r ∈ item.expProducts, PortableRuleP r) :
    (applyRulesOnLink item reduced).isOk = verdict item reduced :=
  applyRulesOnLink_refines item reduced ht hrm hrp

/- Non-vacuity: the hypotheses are met by a concrete table (paths `foo`, `sub/foo`). -/
example : RulesSpec.NormTableP [(['s'], LinkArts.mk [(['f', 'o', 'o'], [])]
    [(['s', 'u', 'b', '/', 'f', 'o', 'o'], [])])] := by
  intro e he
  simp at he
  subst he
  refine ⟨⟨?_, by decide⟩, ⟨?_, by decide⟩⟩
  · intro e he; simp at he; subst he; exact ⟨by decide, by decide, by decide⟩
  · intro e he; simp at he; subst he; exact ⟨by decide, by decide, by decide⟩

/- Non-vacuity: the witnesses of the repaired defects now behave as the statement requires. -/
example : Glob.parse ['a', '*', '*', 'b'] = none := by decide
example : Glob.parse ['['] = none := by decide
example : verifyMatch ['f', 'o', 'o'] (some ['s', 'u', 'b']) .products none ['s']
    [(['f', 'o', 'o'], [])] [['f', 'o', 'o']]
    [(['s'], { materials := [], products := [(['f', 'o', 'o'], [])] })] = [] := by decide

end InToto.Rules
