import InTotoModel.Props.C16Keys
import InTotoModel.Lemmas.JsonShape
/-
  C16 at the level of the *text* on the wire.

  `Props/C16.lean` and `Props/C16Keys.lean` show `decode (encode d) = d` on JSON values.  Here the
  two remaining legs are added: serde_json's writers (compact: `to_string` / `to_vec`; pretty:
  `to_string_pretty`, which `in_toto_run` and the CLI use for link and layout files) and its text
  reader (`Model/JsonText.lean`).  The composition

      document --encode--> value --write--> TEXT --read--> value --decode--> document

  is the identity, for both writers, and more generally for *every* text that spells the encoded
  value - whatever indentation, line breaks, separators and string escapes another producer
  (the Python and Go implementations format differently) has chosen.
-/
namespace InToto.C16Text
open InToto InToto.Json InToto.JsonText InToto.JsonWrite InToto.JsonShape InToto.Wire InToto.KeyId InToto.KeyJson

/-- reading a document from text: serde_json's text reader, then the document's reader -/
def readDoc {α : Type} (dec : JV → Option α) (t : Str) : Option α := (readText t).bind dec

/-- **Formatting is irrelevant.**  If a value decodes to `d`, every text spelling that value reads as `d`. -/
theorem c16_any_spelling_reads_as_the_document {α : Type} (dec : JV → Option α) {v : JV} {d : α}
    (hdec : dec v = some d) (hf : fits 127 v = true) {t : Str} (hs : TextSp v t) : readDoc dec t = some d := by
  unfold readDoc
  rw [readText_spelled hs (fits_sound 127 v hf).2]
  exact hdec

/-- both writers of serde_json emit a spelling of the value -/
theorem textSp_writers {v : JV} (hf : fits 127 v = true) : TextSp v (write v) ∧ TextSp v (writePretty v) :=
  ⟨textSp_of_valSp (valSp_write v (fits_sound 127 v hf).1), textSp_of_valSp (valSp_writeP 0 v (fits_sound 127 v hf).1)⟩

/-- A link survives the wire as text: written compactly or pretty-printed, or formatted in any other way. -/
theorem c16_link_text_round_trip (l : LinkW) (h : l.WF) :
    readDoc linkOfJson (write (linkToJson l)) = some l ∧
    readDoc linkOfJson (writePretty (linkToJson l)) = some l ∧
    ∀ t, TextSp (linkToJson l) t → readDoc linkOfJson t = some l := by
  have hf : fits 127 (linkToJson l) = true := fits_le (by omega) (fits_link l h)
  have hd := link_round_trip l h
  exact ⟨c16_any_spelling_reads_as_the_document _ hd hf (textSp_writers hf).1,
    c16_any_spelling_reads_as_the_document _ hd hf (textSp_writers hf).2,
    fun t ht => c16_any_spelling_reads_as_the_document _ hd hf ht⟩

/-- A layout survives the wire as text (keys, expiry, steps, inspections; no parameter left). -/
theorem c16_layout_text_round_trip (L : LayoutW KeyDesc)
    (hkeys : ∀ p ∈ L.keys, keyIdOk p.1 = true ∧ kidOf p.2 = p.1 ∧ KeyWF p.2)
    (hexp : Time.WholeKey L.expires) (hsteps : ∀ s ∈ L.steps, s.WF) :
    readDoc (layoutOfJson stdKeyEnv) (write (layoutToJson stdKeyEnv L)) = some L ∧
    readDoc (layoutOfJson stdKeyEnv) (writePretty (layoutToJson stdKeyEnv L)) = some L ∧
    ∀ t, TextSp (layoutToJson stdKeyEnv L) t → readDoc (layoutOfJson stdKeyEnv) t = some L := by
  have hf : fits 127 (layoutToJson stdKeyEnv L) = true :=
    fits_le (by omega) (fits_layout stdKeyEnv keysFit_std L hsteps)
  have hd := c16_layout_round_trip_full L hkeys hexp hsteps
  exact ⟨c16_any_spelling_reads_as_the_document _ hd hf (textSp_writers hf).1,
    c16_any_spelling_reads_as_the_document _ hd hf (textSp_writers hf).2,
    fun t ht => c16_any_spelling_reads_as_the_document _ hd hf ht⟩

theorem fits_block (b : BlockW KeyDesc) (hm : fits 5 (metaToJson stdKeyEnv b.signed) = true) :
    fits 6 (blockToJson stdKeyEnv b) = true := by
  have h1 : fitsList 4 (b.signatures.map sigToJson) = true :=
    fitsList_map 4 _ _ fun s _ => fits_le (by omega) (fits_sig s)
  simp only [blockToJson, fits, fitsKvs, h1, Bool.true_and, Bool.and_true]
  exact hm

/-- A signed file (`Metablock`: signatures + link) survives the wire as text. -/
theorem c16_link_file_text_round_trip (sigs : List SigW) (l : LinkW)
    (hs : ∀ s ∈ sigs, keyIdOk s.keyid = true) (h : l.WF) :
    let b : BlockW KeyDesc := { signatures := sigs, signed := .link l }
    readDoc (blockOfJson stdKeyEnv) (write (blockToJson stdKeyEnv b)) = some b ∧
    readDoc (blockOfJson stdKeyEnv) (writePretty (blockToJson stdKeyEnv b)) = some b ∧
    ∀ t, TextSp (blockToJson stdKeyEnv b) t → readDoc (blockOfJson stdKeyEnv) t = some b := by
  intro b
  have hf : fits 127 (blockToJson stdKeyEnv b) = true :=
    fits_le (by omega) (fits_block b (fits_le (by omega) (fits_link l h)))
  have hd : blockOfJson stdKeyEnv (blockToJson stdKeyEnv b) = some b := block_round_trip stdKeyEnv b hs h
  exact ⟨c16_any_spelling_reads_as_the_document _ hd hf (textSp_writers hf).1,
    c16_any_spelling_reads_as_the_document _ hd hf (textSp_writers hf).2,
    fun t ht => c16_any_spelling_reads_as_the_document _ hd hf ht⟩

/-- A signed layout file survives the wire as text. -/
theorem c16_layout_file_text_round_trip (sigs : List SigW) (L : LayoutW KeyDesc)
    (hs : ∀ s ∈ sigs, keyIdOk s.keyid = true)
    (hkeys : ∀ p ∈ L.keys, keyIdOk p.1 = true ∧ kidOf p.2 = p.1 ∧ KeyWF p.2)
    (hexp : Time.WholeKey L.expires) (hsteps : ∀ s ∈ L.steps, s.WF) :
    let b : BlockW KeyDesc := { signatures := sigs, signed := .layout L }
    readDoc (blockOfJson stdKeyEnv) (write (blockToJson stdKeyEnv b)) = some b ∧
    readDoc (blockOfJson stdKeyEnv) (writePretty (blockToJson stdKeyEnv b)) = some b ∧
    ∀ t, TextSp (blockToJson stdKeyEnv b) t → readDoc (blockOfJson stdKeyEnv) t = some b := by
  intro b
  have hf : fits 127 (blockToJson stdKeyEnv b) = true :=
    fits_le (by omega) (fits_block b (fits_layout stdKeyEnv keysFit_std L hsteps))
  have hd := c16_layout_block_round_trip_full sigs L hs hkeys hexp hsteps
  exact ⟨c16_any_spelling_reads_as_the_document _ hd hf (textSp_writers hf).1,
    c16_any_spelling_reads_as_the_document _ hd hf (textSp_writers hf).2,
    fun t ht => c16_any_spelling_reads_as_the_document _ hd hf ht⟩

/- Non-vacuity: the example link of `Props/C16.lean`, pretty-printed, is read back (kernel evaluation). -/
example : readDoc linkOfJson (writePretty (linkToJson exLink)) = some exLink :=
  (c16_link_text_round_trip exLink exLink_WF).2.1

end InToto.C16Text
