import InTotoModel.Lemmas.Verify
/-
  C02 — Links count for a step only if signed by a functionary authorized for it.

  Model: `InToto.Verify.verify`.  Hypotheses made explicit:
  * `GlobSafe`: step names without glob metacharacters or `/` (otherwise the model answers
    `err 99` = outside the model, so success already implies it);
  * `hnames`: step names are pairwise distinct (the code files evidence in a map keyed by step name) -
    a hypothesis of the first statement only: since the repair of the repeated-step-name defect a
    successful verification implies it (`c02_success_implies_distinct_step_names`,
    `c02_every_step_has_authorized_evidence_whatever_the_names`);
  * `hkeys`: the layout's key table files every key under its own intrinsic id (guaranteed for parsed
    layouts by the parser's filter and for built ones by `add_key`; C12).
-/
namespace InToto.Verify
open InToto.Threshold

variable {K : Type}

/-- Success implies, for every step: at least `max 1 threshold` *distinct* key ids, each listed in
    the step's `pubkeys`, each defined in the layout's key table, each with a file in the link
    directory that is named after the step and that id's prefix and carries a signature, attributed
    to that id, that is valid under that key over the file's own content. -/
theorem c02_every_step_has_authorized_evidence {env : Env K} {ord : Ord} (hord : ord.Valid)
    {fuel : Nat} {path : List Str} {b : Block K} {keys : List K} {dir : Dir K} {name : Str} {s : Link}
    (h : (verify env ord fuel path b keys dir name).1 = .ok s)
    (L : Layout K) (hb : b.signed = .layout L)
    (hnames : (L.steps.map Step.name).Nodup)
    (hkeys : ∀ id k, lookup id L.keys = some k → env.kidOf k = id) :
    ∀ st ∈ L.steps, ∃ ids : List Str, ids.Nodup ∧ max 1 st.threshold ≤ ids.length ∧
      ∀ id ∈ ids, id ∈ st.pubkeys ∧ ∃ k, lookup id L.keys = some k ∧
        ∃ blk, FiledIn dir st.name id blk ∧
          ∃ σ ∈ blk.sigs, σ.kid = id ∧ env.valid k blk.signed σ.val = true := by
  obtain ⟨f, rfl⟩ := verify_ok_fuel h
  obtain ⟨p⟩ := verify_ok_inv h
  have hL : p.L = L := by
    have := (verifyBlockK_ok p.hsig).1
    rw [hb] at this
    cases this
    rfl
  intro st hst
  have ⟨hv1, _, hv3, hv4⟩ := verifyThresholds_spec env ord p.L p.loaded p.L.steps [] p.hthr
  have hst' : st ∈ p.L.steps := by rw [hL]; exact hst
  have ⟨hlook, hthr⟩ := hv3 (by rw [hL]; exact hnames) st hst'
  let good := goodOf env ord p.L p.loaded st
  have hgs := goodLinks_spec env ord p.L st (ord.perm 1 ((lookup st.name p.loaded).getD [])) []
  have hnd : (good.map Prod.fst).Nodup := hgs.2 (by simp)
  -- the step keeps a non-empty entry through sub-layout processing and reduction
  have hmemv : (st.name, good) ∈ p.verified := mem_of_lookup hlook
  have hperm := hord 2 _ p.verified
  have hvnd : ((ord.perm 2 p.verified).map Prod.fst).Nodup :=
    ((hperm.map Prod.fst).nodup_iff).mpr (hv4 (by simp))
  obtain ⟨pl, hpl, hplnil⟩ := subLayouts_entries hord _ _ _ p.hsub hvnd (st.name, good) (hperm.mem_iff.mpr hmemv)
  have hplne : pl ≠ [] := reduceLinks_nonempty p.hred _ hpl
  have hgne : good ≠ [] := fun e => hplne (hplnil e)
  refine ⟨good.map Prod.fst, hnd, ?_, ?_⟩
  · have : 1 ≤ good.length := by
      cases hg : good with
      | nil => exact absurd hg hgne
      | cons _ _ => simp
    have hthr' : st.threshold ≤ good.length := hthr
    simp only [List.length_map]
    omega
  · intro id hid
    obtain ⟨e, he, rfl⟩ := List.mem_map.mp hid
    rcases hgs.1 e he with h0 | ⟨hin, hpk, k, m, hk, hvb⟩
    · simp at h0
    · rw [hL] at hk
      refine ⟨hpk, k, hk, e.2, ?_, ?_⟩
      · -- the entry was loaded from the directory
        have hin' : e ∈ (lookup st.name p.loaded).getD [] := (hord 1 _ _).mem_iff.mp hin
        cases hl : lookup st.name p.loaded with
        | none => rw [hl] at hin'; simp at hin'
        | some lst =>
          rw [hl] at hin'
          simp only [Option.getD_some] at hin'
          rcases loadLinks_spec dir p.L.steps [] p.hload (st.name, lst) (mem_of_lookup hl) with h0 | ⟨hf, _⟩
          · simp at h0
          · exact hf e hin'
      · have ⟨_, hs⟩ := verifyBlockK_ok hvb
        have ⟨_, ids, hnd', hlen', hids⟩ :=
          c04_sound env.kidOf _ (ord.perm 0) (hord 0 _) e.2.sigs 1 [k] hs
        cases ids with
        | nil => simp at hlen'
        | cons i _ =>
          obtain ⟨k', hk', hkid, σ, hσ, hσk, hval⟩ := hids i (by simp)
          simp only [List.mem_singleton] at hk'
          subst hk'
          have : i = e.1 := by rw [← hkid]; exact hkeys _ _ hk
          subst this
          exact ⟨σ, hσ, hσk, hval⟩

/-- Evidence signed by a key that is not authorized for the step never counts: whatever is counted
    for a step was signed by a key in that step's `pubkeys` (even if the key is trusted for other
    steps or defined in the layout). -/
theorem c02_only_listed_keys_count {env : Env K} {ord : Ord} (L : Layout K) (st : Step)
    (links : List (Str × Block K)) :
    ∀ e ∈ goodLinks env ord L st links [], e.1 ∈ st.pubkeys ∧ ∃ k, lookup e.1 L.keys = some k := by
  intro e he
  rcases (goodLinks_spec env ord L st links []).1 e he with h | ⟨_, hpk, k, _, hk, _⟩
  · simp at h
  · exact ⟨hpk, k, hk⟩

/-- Verification succeeds only on layouts whose step names are pairwise distinct (evidence is filed by
    step name; a second step of the same name is an error since fix `duplicate step names`). -/
theorem c02_success_implies_distinct_step_names {env : Env K} {ord : Ord}
    {fuel : Nat} {path : List Str} {b : Block K} {keys : List K} {dir : Dir K} {name : Str} {s : Link}
    (h : (verify env ord fuel path b keys dir name).1 = .ok s)
    (L : Layout K) (hb : b.signed = .layout L) : (L.steps.map Step.name).Nodup := by
  obtain ⟨f, rfl⟩ := verify_ok_fuel h
  obtain ⟨p⟩ := verify_ok_inv h
  have hL : p.L = L := by
    have := (verifyBlockK_ok p.hsig).1
    rw [hb] at this
    cases this
    rfl
  rw [← hL]
  exact (verifyThresholds_names env ord p.L p.loaded p.L.steps [] p.hthr).2

/-- `c02_every_step_has_authorized_evidence` without the hypothesis on step names. -/
theorem c02_every_step_has_authorized_evidence_whatever_the_names {env : Env K} {ord : Ord} (hord : ord.Valid)
    {fuel : Nat} {path : List Str} {b : Block K} {keys : List K} {dir : Dir K} {name : Str} {s : Link}
    (h : (verify env ord fuel path b keys dir name).1 = .ok s)
    (L : Layout K) (hb : b.signed = .layout L)
    (hkeys : ∀ id k, lookup id L.keys = some k → env.kidOf k = id) :
    ∀ st ∈ L.steps, ∃ ids : List Str, ids.Nodup ∧ max 1 st.threshold ≤ ids.length ∧
      ∀ id ∈ ids, id ∈ st.pubkeys ∧ ∃ k, lookup id L.keys = some k ∧
        ∃ blk, FiledIn dir st.name id blk ∧
          ∃ σ ∈ blk.sigs, σ.kid = id ∧ env.valid k blk.signed σ.val = true :=
  c02_every_step_has_authorized_evidence hord h L hb (c02_success_implies_distinct_step_names h L hb) hkeys

/-- A file counts only under a key id whose eight-character prefix is the one in the file's name
    and which one of the file's own signatures carries. -/
theorem c02_filed_under_a_signature_it_carries {dir : Dir K} {stepName : Str}
    {res : List (Str × Block K)} (h : loadStepFiles stepName dir.files [] = .ok res) :
    ∀ e ∈ res, ∃ fname, (fname, FileC.block e.2) ∈ dir.files ∧ matchesStepFile stepName fname = true ∧
      ∃ σ ∈ e.2.sigs, σ.kid = e.1 ∧ prefix8 e.1 = fileShortId stepName fname := by
  intro e he
  rcases (loadStepFiles_spec stepName dir.files [] h).1 e he with h0 | h0
  · simp at h0
  · exact h0

end InToto.Verify
