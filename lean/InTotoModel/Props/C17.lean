import InTotoModel.Model.Channel
import InTotoModel.Generated.StrRequests
import InTotoModel.Lemmas.JsonText
/-
  C17 — Decoding does not depend on how the JSON reaches the parser.

  `Generated.strRequests` is regenerated from /repo/src on every run (translate/strreq.py): every
  string request made by the crate's hand-written deserialisation code, with its kind.  The theorems:
  (1) no request in the current source is for a borrowed string; (2) a decoder all of whose requests
  are owned returns the same result on every channel and for every escape spelling.
  (3) the text reader (`Model/JsonText.lean`, a model of `serde_json::from_str::<Value>` tied to it by
  the `readtext` correspondence) reads every spelling of a value - whatever white space or escape
  sequences the text uses - as that value, so that everything downstream of the JSON tree sees the
  same input.  serde's derive machinery is not modelled beyond `Model/Channel.lean`; the derived
  decoders are covered by the harness oracle (every document type × seven entry points × several
  spellings, valid and near-valid documents, must agree).
-/
namespace InToto.Channel
open InToto.Generated

/-- (1) the source contains no borrowed-string request (and none the translator could not classify). -/
theorem c17_no_borrowed_string_requests :
    strRequests.all (fun r => r.kind != .borrowed && r.kind != .unknown) = true := by
  decide

theorem fetch_owned (src src' : Source) (t t' : Tok) (h : t.value = t'.value) :
    fetch src .owned t = fetch src' .owned t' := by
  simp [fetch, h]

theorem mapM_owned (src src' : Source) (reqs : List Req) (toks toks' : List Tok)
    (hreq : ∀ r ∈ reqs, r = .owned) (hv : toks.map Tok.value = toks'.map Tok.value) :
    (List.zip reqs toks).mapM (fun p => fetch src p.1 p.2)
      = (List.zip reqs toks').mapM (fun p => fetch src' p.1 p.2) := by
  induction reqs generalizing toks toks' with
  | nil => simp
  | cons r rs ih =>
    cases toks with
    | nil =>
      cases toks' with
      | nil => rfl
      | cons t' ts' => simp at hv
    | cons t ts =>
      cases toks' with
      | nil => simp at hv
      | cons t' ts' =>
        simp only [List.map_cons, List.cons.injEq] at hv
        have hr : r = .owned := hreq r (by simp)
        subst hr
        simp only [List.zip_cons_cons, List.mapM_cons]
        rw [fetch_owned src src' t t' hv.1, ih ts ts' (fun r hr => hreq r (by simp [hr])) hv.2]

/-- (2) channel- and spelling-independence of any decoder that only makes owned requests. -/
theorem c17_owned_decoders_are_channel_independent {α : Type} (src src' : Source) (reqs : List Req)
    (toks toks' : List Tok) (k : List Str → Option α)
    (hreq : ∀ r ∈ reqs, r = .owned) (hv : toks.map Tok.value = toks'.map Tok.value) :
    decode src reqs toks k = decode src' reqs toks' k := by
  unfold decode
  rw [mapM_owned src src' reqs toks toks' hreq hv]

/-- Recorded witness of the repaired defect (`fix:` 46c87bf): a borrowed request — as the rule
    visitor and `TimeStamp` used to make — succeeds from in-memory text and fails from a reader,
    from a JSON tree, and for an escaped spelling of the same keyword. -/
theorem c17_borrowed_request_depends_on_channel :
    fetch .memory .borrowed ⟨['C', 'R', 'E', 'A', 'T', 'E'], false⟩ ≠ fetch .reader .borrowed ⟨['C', 'R', 'E', 'A', 'T', 'E'], false⟩
    ∧ fetch .memory .borrowed ⟨['C', 'R', 'E', 'A', 'T', 'E'], false⟩ ≠ fetch .memory .borrowed ⟨['C', 'R', 'E', 'A', 'T', 'E'], true⟩ := by
  decide

end InToto.Channel

namespace InToto.JsonText
open InToto InToto.Json

/-- (3) Two texts for the same content - differing in white space and in the escape sequences they
    use - are accepted alike and yield the same JSON tree. -/
theorem c17_whitespace_and_escapes_do_not_matter {v : JV} {t t' : Str} (h : TextSp v t) (h' : TextSp v t')
    (hd : depth v ≤ 127) : readText t = readText t' ∧ readText t = some v := by
  rw [readText_spelled h hd, readText_spelled h' hd]
  exact ⟨rfl, rfl⟩

/-- Every character of a string may be written raw, by its two-character escape, as `\uXXXX` in
    either hex case, or (beyond the BMP) as a surrogate pair: the string token is the same. -/
theorem c17_string_token_independent_of_escapes {s b b' : Str} (h : BodySp s b) (h' : BodySp s b') (rest : Str) :
    lexStr ((b ++ '"' :: rest).length + 1) (b ++ '"' :: rest) [] = some (s, rest) ∧
    lexStr ((b' ++ '"' :: rest).length + 1) (b' ++ '"' :: rest) [] = some (s, rest) :=
  ⟨lexStr_quoted h rest, lexStr_quoted h' rest⟩

/- Non-vacuity: four spellings of `é`, two of LF, a surrogate pair. -/
example : CharSp 'é' ['é'] := .raw _ (by decide) (by decide) (by decide)
example : CharSp 'é' ['\\', 'u', '0', '0', 'e', '9'] := .u4 _ _ _ _ _ (by decide) (by decide)
example : CharSp 'é' ['\\', 'u', '0', '0', 'E', '9'] := .u4 _ _ _ _ _ (by decide) (by decide)
example : CharSp '\n' ['\\', 'n'] := .short 'n' _ (by decide)
example : CharSp '\n' ['\\', 'u', '0', '0', '0', 'A'] := .u4 _ _ _ _ _ (by decide) (by decide)
example : CharSp '😀' ['\\', 'u', 'd', '8', '3', 'd', '\\', 'u', 'D', 'E', '0', '0'] :=
  .pair _ _ _ _ _ _ _ _ _ 0xD83D 0xDE00 (by decide) (by decide) (by decide) (by decide) (by decide)

end InToto.JsonText
