import InTotoModel.Props.C16
import InTotoModel.Lemmas.KeyJson
/-
  C16 — with the key reader modelled (`Model/KeyJson.lean`: hex / PEM + DER material, scheme
  compatibility, the recomputed id) nothing of the layout codec is a parameter any more.
-/
namespace InToto.KeyJson
open InToto InToto.KeyId InToto.Wire

/-- A public key survives its JSON form (every key type; the `keyid` member it carries is not what
    identifies it on the way back - the description is). -/
theorem c16_key_round_trip (d : KeyDesc) (hwf : KeyWF d) : keyOfJson (keyToJson d) = some d :=
  key_round_trip d hwf

theorem std_keyToJson : stdKeyEnv.keyToJson = keyToJson := by unfold stdKeyEnv; rfl
theorem std_keyOfJson : stdKeyEnv.keyOfJson = keyOfJson := by unfold stdKeyEnv; rfl
theorem std_kidOf : stdKeyEnv.kidOf = kidOf := by unfold stdKeyEnv; rfl
theorem std_fmtTime : stdKeyEnv.fmtTime = Time.fmtTimeKey := by unfold stdKeyEnv; rfl
theorem std_parseTime : stdKeyEnv.parseTime = Time.parseTimeKey := by unfold stdKeyEnv; rfl

theorem layoutGood_std (L : LayoutW KeyDesc)
    (hkeys : ∀ p ∈ L.keys, keyIdOk p.1 = true ∧ kidOf p.2 = p.1 ∧ KeyWF p.2)
    (hexp : Time.WholeKey L.expires) (hsteps : ∀ s ∈ L.steps, s.WF) : LayoutGood stdKeyEnv L := by
  constructor
  · intro p hp
    obtain ⟨h1, h2, h3⟩ := hkeys p hp
    rw [std_kidOf, std_keyOfJson, std_keyToJson]
    exact ⟨h1, h2, key_round_trip p.2 h3⟩
  · rw [std_parseTime, std_fmtTime]
    exact Time.parseTimeKey_fmtTimeKey hexp
  · unfold truncSec; exact Time.truncKey_wholeKey hexp
  · exact hsteps

/-- A layout survives the wire - keys, expiry, steps, inspections - given only that its own parts are
    representable: table entries filed under their key's id (a 64-byte id), keys the library can hold,
    a whole-second expiry of the years 0000-9999, thresholds within `u32`. -/
theorem c16_layout_round_trip_full (L : LayoutW KeyDesc)
    (hkeys : ∀ p ∈ L.keys, keyIdOk p.1 = true ∧ kidOf p.2 = p.1 ∧ KeyWF p.2)
    (hexp : Time.WholeKey L.expires) (hsteps : ∀ s ∈ L.steps, s.WF) :
    layoutOfJson stdKeyEnv (layoutToJson stdKeyEnv L) = some L :=
  layout_round_trip stdKeyEnv L (layoutGood_std L hkeys hexp hsteps)

/-- A signed block holding a layout survives the wire. -/
theorem c16_layout_block_round_trip_full (sigs : List SigW) (L : LayoutW KeyDesc)
    (hs : ∀ s ∈ sigs, keyIdOk s.keyid = true)
    (hkeys : ∀ p ∈ L.keys, keyIdOk p.1 = true ∧ kidOf p.2 = p.1 ∧ KeyWF p.2)
    (hexp : Time.WholeKey L.expires) (hsteps : ∀ s ∈ L.steps, s.WF) :
    blockOfJson stdKeyEnv (blockToJson stdKeyEnv { signatures := sigs, signed := .layout L }) =
      some { signatures := sigs, signed := .layout L } :=
  block_round_trip stdKeyEnv _ hs (layoutGood_std L hkeys hexp hsteps)

/- Non-vacuity: an ed25519 key with the usual hash-algorithm list is well formed. -/
example : KeyWF ⟨.ed25519, sEd, some ["sha256".toList, "sha512".toList], List.replicate 32 7⟩ := ⟨rfl, rfl⟩

end InToto.KeyJson
