import InTotoModel.Props.C10
import InTotoModel.Lemmas.JsonWrite
/-
  C10 — "loss-free": the canonical text read by (the model of) serde_json's text reader gives back the
  value in its `BTreeMap` form; `c10_parse_back` says the same for a strict JSON reader written for the
  canonical form alone.  (The canonical writer is serde_json's compact writer on the rebuilt value, so
  this is `readText_write`.)
-/
namespace InToto.Json
open InToto InToto.JsonText InToto.JsonWrite

theorem c10_canonical_text_is_read_back_by_the_text_reader {v : JV} {t : Str} (h : canon v = .ok t)
    (hd : depth (norm v) ≤ 127) : readText t = some (norm v) := by
  unfold canon at h
  cases hn : hasNonInt v with
  | true => rw [hn] at h; simp at h
  | false =>
    rw [hn] at h
    simp only [Bool.false_eq_true, if_false, Out.ok.injEq] at h
    subst h
    exact readText_write (norm v) (hasNonInt_norm v hn) hd

/-- ... and so does the pretty-printed form of the same value. -/
theorem c10_pretty_text_reads_as_the_canonical_one {v : JV} {t : Str} (h : canon v = .ok t)
    (hd : depth (norm v) ≤ 127) : readText (writePretty (norm v)) = readText t := by
  rw [c10_canonical_text_is_read_back_by_the_text_reader h hd]
  unfold canon at h
  cases hn : hasNonInt v with
  | true => rw [hn] at h; simp at h
  | false => exact readText_writePretty (norm v) (hasNonInt_norm v hn) hd

end InToto.Json
