import InTotoModel.Lemmas.KeyId64
import InTotoModel.Props.C16Text
import InTotoModel.Props.C05Keys
/-
  C12 / C16 — the shape of a key id is a theorem: SHA-256 has 32 bytes of output, the hex form of
  which is 64 ASCII characters.  The representability condition "the table entry is filed under a
  64-byte id" of the layout round trips is therefore implied by "filed under the key's own id".
-/
namespace InToto.KeyJson
open InToto InToto.KeyId InToto.Wire InToto.C16Text InToto.JsonText InToto.JsonWrite

/-- Every key id the library computes is 64 lower-case hex digits, whatever the key. -/
theorem c12_key_id_is_64_hex_digits (d : KeyDesc) : keyIdOk (kidOf d) = true := keyIdOk_kidOf d

theorem keys_hyp {ks : List (Str × KeyDesc)} (h : ∀ p ∈ ks, kidOf p.2 = p.1 ∧ KeyWF p.2) :
    ∀ p ∈ ks, keyIdOk p.1 = true ∧ kidOf p.2 = p.1 ∧ KeyWF p.2 := by
  intro p hp
  obtain ⟨h1, h2⟩ := h p hp
  exact ⟨by rw [← h1]; exact keyIdOk_kidOf p.2, h1, h2⟩

/-- A layout whose key table files every key under its own id survives the wire (value level). -/
theorem c16_layout_round_trip_intrinsic (L : LayoutW KeyDesc)
    (hkeys : ∀ p ∈ L.keys, kidOf p.2 = p.1 ∧ KeyWF p.2)
    (hexp : Time.WholeKey L.expires) (hsteps : ∀ s ∈ L.steps, s.WF) :
    layoutOfJson stdKeyEnv (layoutToJson stdKeyEnv L) = some L :=
  c16_layout_round_trip_full L (keys_hyp hkeys) hexp hsteps

/-- ... and as text, under any formatting. -/
theorem c16_layout_text_round_trip_intrinsic (L : LayoutW KeyDesc)
    (hkeys : ∀ p ∈ L.keys, kidOf p.2 = p.1 ∧ KeyWF p.2)
    (hexp : Time.WholeKey L.expires) (hsteps : ∀ s ∈ L.steps, s.WF) :
    ∀ t, TextSp (layoutToJson stdKeyEnv L) t → readDoc (layoutOfJson stdKeyEnv) t = some L :=
  (c16_layout_text_round_trip L (keys_hyp hkeys) hexp hsteps).2.2

/-- Every representable layout and every link *has* signed bytes: canonicalisation cannot fail on what
    the encoders produce (strings and integers within range only). -/
theorem c05_layout_has_signed_bytes (L : LayoutW KeyDesc) (hsteps : ∀ s ∈ L.steps, s.WF) :
    ∃ t, Json.signedText (layoutToJson stdKeyEnv L) = .ok t := by
  unfold Json.signedText Json.canon
  rw [(JsonShape.fits_sound 5 _ (JsonShape.fits_layout stdKeyEnv JsonShape.keysFit_std L hsteps)).1]
  exact ⟨_, rfl⟩

theorem c05_link_has_signed_bytes (l : LinkW) (h : l.WF) : ∃ t, Json.signedText (linkToJson l) = .ok t := by
  unfold Json.signedText Json.canon
  rw [(JsonShape.fits_sound 3 _ (JsonShape.fits_link l h)).1]
  exact ⟨_, rfl⟩

end InToto.KeyJson
