import InTotoModel.Props.C01
import InTotoModel.Props.C02
import InTotoModel.Props.C06
import InTotoModel.Props.C07
import InTotoModel.Props.C08
import InTotoModel.Props.C13
import InTotoModel.Props.C15
import InTotoModel.Props.Scenario
/-
  Non-vacuity of the pipeline theorems: each is instantiated on `Scenario` (a layout with a
  threshold-2 step, a step delegated to a sub-layout, a MATCH rule and an inspection) for which the
  kernel has checked `verify … = .ok summaryLink` under two different iteration orders.  The
  hypotheses of the theorems are therefore met by a reachable, non-trivial input.
-/
namespace InToto.Verify.Scenario
open InToto InToto.Verify

theorem step_names_nodup : (layout.steps.map Step.name).Nodup := by decide

theorem keys_filed_under_their_ids : ∀ id k, lookup id layout.keys = some k → env.kidOf k = id := by
  intro id k h
  simp only [layout, lookup] at h
  split at h
  · rename_i e; cases h; rw [← e]; rfl
  · split at h
    · rename_i e; cases h; rw [← e]; rfl
    · cases h

example := c01_layout_signed_by_every_trusted_key idOrd_valid verifies_id
example := c01_layout_signed_by_every_trusted_key revOrd_valid verifies_rev
example := c02_every_step_has_authorized_evidence idOrd_valid verifies_id layout rfl step_names_nodup
  keys_filed_under_their_ids
example := c06_not_expired verifies_id
example := c06_sublayouts_not_expired idOrd_valid verifies_id
example := c07_multi_party_links_agree idOrd_valid verifies_id
example := c08_nonzero_exit_is_fatal verifies_id
example := c08_inspection_rules_enforced verifies_id
example := c15_sublayout_fully_verified idOrd_valid verifies_id
example := c15_summary verifies_id

/-- C13 on the scenario: both sides of the equivalence are true, under two orders that differ -/
example : ((verify env idOrd 2 [] block [0] dir "final".toList).1 = .ok summaryLink ↔
    (verify env revOrd 2 [] block [0] dir "final".toList).1 = .ok summaryLink) ∧
    (verify env idOrd 2 [] block [0] dir "final".toList).1 = .ok summaryLink ∧
    idOrd.perm 0 [(kB, 1), (kC, 2)] ≠ revOrd.perm 0 [(kB, 1), (kC, 2)] :=
  ⟨c13_full env idOrd revOrd idOrd_valid revOrd_valid 2 [] block [0] dir "final".toList summaryLink,
   verifies_id, orders_differ⟩

/-- the failing variants are rejected by the real `verify` (under any valid order, by C13) -/
theorem dissent_rejected (ord : Ord) (h : ord.Valid) (s : Link) :
    (verify env ord 2 [] block [0] dissentDir "final".toList).1 ≠ .ok s := by
  intro hok
  have := (c13_full env ord idOrd h idOrd_valid 2 [] block [0] dissentDir "final".toList s).mp hok
  rw [← okPart_eq_some, okPart_verify_eq_verifyC, dissent_fails] at this
  cases this

theorem missing_sublayout_evidence_rejected (ord : Ord) (h : ord.Valid) (s : Link) :
    (verify env ord 2 [] block [0] noSubDir "final".toList).1 ≠ .ok s := by
  intro hok
  have := (c13_full env ord idOrd h idOrd_valid 2 [] block [0] noSubDir "final".toList s).mp hok
  rw [← okPart_eq_some, okPart_verify_eq_verifyC, missing_sublayout_evidence_fails] at this
  cases this

end InToto.Verify.Scenario
