import InTotoModel.Lemmas.Verify
import InTotoModel.Lemmas.JsonOrder
/-
  C13 — The verification verdict is a deterministic function of its inputs.

  Every `HashMap` iteration in `verifylib.rs` / `Metablock::verify` is a parameter of the model
  (`ord.perm site`, any rearrangement).  The full statement is `C13_Full` below.  Proved so far, for
  all inputs: the three places where the code *chooses* or *stops early* depending on iteration
  order give order-independent results — signature counting with its early exit
  (`c13_block_verdict_order_independent`), the agreement check with its arbitrary reference link
  (`c13_agreement_order_independent`), and the choice of a step's representative link
  (`c13_representative_order_independent`; before the `fix:` commit 269e874 this was
  `values().last()`, whose order dependence is recorded in `c13_former_choice_order_dependent`).
  Not yet a theorem: the composition through all twelve stages (`C13_Full`); the driver evaluates
  every scenario under two opposite iteration orders and the harness repeats the real run with fresh
  hash seeds.
-/
namespace InToto.Verify
open InToto.Threshold InToto.Json

variable {K : Type}

/-- The full statement: for any two families of iteration orders the result (verdict and, on
    success, the summary link) is the same. -/
def C13_Full (K : Type) : Prop :=
  ∀ (env : Env K) (ord ord' : Ord), ord.Valid → ord'.Valid →
    ∀ fuel path (b : Block K) keys dir name,
      (verify env ord fuel path b keys dir name).1 = (verify env ord' fuel path b keys dir name).1

/-- Signature-threshold verification of a block does not depend on the iteration order. -/
theorem c13_block_verdict_order_independent (env : Env K) (ord ord' : Ord) (h : ord.Valid) (h' : ord'.Valid)
    (b : Block K) (t : Nat) (auth : List K) :
    verifyBlockK env ord b t auth = verifyBlockK env ord' b t auth := by
  unfold verifyBlockK verifyBlock
  rw [c04_order_independent env.kidOf _ (ord.perm 0) (ord'.perm 0) (h 0 _) (h' 0 _)]

theorem minEntry_mem {α : Type} {l : List (Str × α)} {m : Str × α} (h : minEntry l = some m) : m ∈ l := by
  induction l generalizing m with
  | nil => simp [minEntry] at h
  | cons e r ih =>
    simp only [minEntry] at h
    split at h
    · cases h; simp
    · rename_i m' hm'
      split at h
      · cases h; exact List.mem_cons_of_mem _ (ih hm')
      · cases h; simp

theorem minEntry_le {α : Type} {l : List (Str × α)} {m : Str × α} (h : minEntry l = some m) :
    ∀ e ∈ l, strLt e.1 m.1 = false := by
  induction l generalizing m with
  | nil => simp
  | cons e r ih =>
    simp only [minEntry] at h
    split at h
    · rename_i hnone
      cases h
      have : r = [] := by
        cases r with
        | nil => rfl
        | cons x xs => exact absurd hnone (minEntry_ne_none (by simp))
      subst this
      intro x hx
      simp at hx; subst hx
      exact strLt_irrefl _
    · rename_i m' hm'
      have ihm := ih hm'
      split at h
      · rename_i hlt
        cases h
        intro x hx
        simp only [List.mem_cons] at hx
        rcases hx with rfl | hx
        · exact strLt_asymm hlt
        · exact ihm x hx
      · rename_i hnlt
        cases h
        intro x hx
        simp only [List.mem_cons] at hx
        rcases hx with rfl | hx
        · exact strLt_irrefl _
        · cases hx' : strLt x.1 e.1 with
          | false => rfl
          | true =>
            exfalso
            have h1 := ihm x hx
            have hnlt' : strLt m'.1 e.1 = false := by simpa using hnlt
            cases hc : strLt e.1 m'.1 with
            | true => rw [strLt_trans hx' hc] at h1; cases h1
            | false =>
              have : e.1 = m'.1 := strLt_total hc hnlt'
              rw [this] at hx'
              rw [hx'] at h1; cases h1

/-- The representative link of a step (the entry with the smallest key id) does not depend on the
    order in which the step's links are enumerated. -/
theorem c13_representative_order_independent {α : Type} {l l' : List (Str × α)} (hp : l.Perm l')
    (hnd : (l.map Prod.fst).Nodup) : minEntry l = minEntry l' := by
  have hnd' : (l'.map Prod.fst).Nodup := (hp.map Prod.fst).nodup_iff.mp hnd
  cases h : minEntry l with
  | none =>
    have : l = [] := by
      cases l with
      | nil => rfl
      | cons x xs => exact absurd h (minEntry_ne_none (by simp))
    subst this
    have : l' = [] := hp.symm.eq_nil
    subst this
    rfl
  | some m =>
    cases h' : minEntry l' with
    | none =>
      have : l' = [] := by
        cases l' with
        | nil => rfl
        | cons x xs => exact absurd h' (minEntry_ne_none (by simp))
      subst this
      have := hp.eq_nil
      subst this
      simp [minEntry] at h
    | some m' =>
      have hm := minEntry_mem h
      have hm' := minEntry_mem h'
      have h1 := minEntry_le h m' (hp.mem_iff.mpr hm')
      have h2 := minEntry_le h' m (hp.mem_iff.mp hm)
      have hk : m.1 = m'.1 := strLt_total h2 h1
      have : m = m' := by
        have e1 := lookup_of_mem hnd hm
        have e2 := lookup_of_mem hnd (hp.mem_iff.mpr hm')
        rw [hk] at e1
        rw [e1] at e2
        cases m; cases m'
        simp only at hk e2
        subst hk
        cases e2
        rfl
      rw [this]

/-- The agreement check compares every link with an arbitrary reference link of the step; its
    verdict does not depend on which one the iteration order happens to pick. -/
theorem c13_agreement_order_independent (ord ord' : Ord) (h : ord.Valid) (h' : ord'.Valid)
    (links : List (Str × List (Str × Link))) (steps : List Step) :
    checkAgreement ord links steps = checkAgreement ord' links steps := by
  induction steps with
  | nil => rfl
  | cons st rest ih =>
    simp only [checkAgreement]
    split
    · exact ih
    · split
      · rfl
      · rename_i per hper
        split
        · rfl
        · -- both orders pick some element of `per` as reference
          have key : ∀ (o : Ord), o.Valid →
              (match (o.perm 4 per).head? with
                | none => (Out.err 7 : Out Unit)
                | some (_, ref) => if per.all (fun e => agree e.2 ref) then checkAgreement o links rest else .err 7)
              = if per = [] then .err 7
                else if per.all (fun e => per.all (fun e' => agree e.2 e'.2)) then checkAgreement o links rest else .err 7 := by
            intro o ho
            have hperm := ho 4 _ per
            cases hh : (o.perm 4 per).head? with
            | none =>
              have : o.perm 4 per = [] := by cases hq : o.perm 4 per <;> simp_all
              have : per = [] := by rw [this] at hperm; exact hperm.symm.eq_nil
              simp [this]
            | some r =>
              obtain ⟨kid, ref⟩ := r
              have hmem : (kid, ref) ∈ per := by
                apply hperm.mem_iff.mp
                cases hq : o.perm 4 per with
                | nil => rw [hq] at hh; simp at hh
                | cons x xs => rw [hq] at hh; simp at hh; subst hh; simp
              have hne : per ≠ [] := by intro e; rw [e] at hmem; simp at hmem
              simp only [hne, if_false]
              have hiff : per.all (fun e => agree e.2 ref) = per.all (fun e => per.all (fun e' => agree e.2 e'.2)) := by
                cases ha : per.all (fun e => agree e.2 ref) with
                | true =>
                  symm
                  rw [List.all_eq_true]
                  intro e he
                  rw [List.all_eq_true]
                  intro e' he'
                  have a1 := List.all_eq_true.mp ha e he
                  have a2 := List.all_eq_true.mp ha e' he'
                  simp only [agree, Bool.and_eq_true, decide_eq_true_eq] at a1 a2 ⊢
                  exact ⟨a1.1.trans a2.1.symm, a1.2.trans a2.2.symm⟩
                | false =>
                  symm
                  cases hb : per.all (fun e => per.all (fun e' => agree e.2 e'.2)) with
                  | false => rfl
                  | true =>
                    exfalso
                    have : per.all (fun e => agree e.2 ref) = true := by
                      rw [List.all_eq_true]
                      intro e he
                      have := List.all_eq_true.mp (List.all_eq_true.mp hb e he) (kid, ref) hmem
                      exact this
                    rw [this] at ha; cases ha
              rw [hiff]
          have k1 := key ord h
          have k2 := key ord' h'
          rw [ih] at k1 ⊢
          exact k1.trans k2.symm

/-- Recorded witness of the repaired defect: taking the *last* entry in iteration order (the former
    `values().last()`) depends on the order as soon as a step has two different links. -/
theorem c13_former_choice_order_dependent :
    ∃ (l : List (Str × Nat)), (l.map Prod.fst).Nodup ∧ l.getLast? ≠ l.reverse.getLast? :=
  ⟨[(['a'], 1), (['b'], 2)], by decide, by decide⟩

end InToto.Verify
