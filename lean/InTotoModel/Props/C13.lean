import InTotoModel.Lemmas.Determinism
import InTotoModel.Lemmas.Sequential
import InTotoModel.Lemmas.NoPanic
/-
  C13 — The verification verdict is a deterministic function of its inputs.

  Every `HashMap` iteration in `verifylib.rs` / `Metablock::verify` is a parameter of the model
  (`ord.perm site`; `ord.Valid`: each instance returns a rearrangement of its argument, nothing
  else is assumed).  `c13_full` is the whole statement: for any two valid families of orders,
  any environment (key ids, signature validity, clock, inspection outcomes), fuel, layout block,
  caller keys, link directory and name, verification succeeds under one iff it succeeds under the
  other, with the same summary link.  With `c13_failure_is_an_error` (no run ends in a panic) the
  other verdict, failure, is order independent too.

  Inspections see and change the one working directory, so the *sequence* in which inspection
  commands of different sub-layouts run is an input of the later ones.  Since the `fix:` commit
  0f00e75 `verify_sublayouts` visits the steps in layout order and the evidence of a step in key-id
  order (before, in hash order: two delegated steps whose inspections could see each other's link
  file were accepted in one run and rejected in the next).  `c13_complete_result_is_determined`: under
  any two families of orders that visit delegated evidence this way - all other sites arbitrary - the
  complete result is the same: verdict, error stage, summary and the list of inspection commands in
  the order in which they were started, in failing runs too.

  The three places where the code *chooses* or *stops early* depending on the order are stated
  separately: signature counting with its early exit, the agreement check with its arbitrary
  reference link, and the choice of a step's representative link (before the `fix:` commit 269e874
  this was `values().last()`; `c13_former_choice_order_dependent` records that order dependence).

  Proof (Lemmas/Determinism.lean): each loop equals an order-free description (a filter for the
  threshold stage, all-or-nothing maps for the sub-layout and reduction stages, an all-pairs
  formulation of agreement); the tables of two runs are related by "same keys, values up to
  permutation"; every later stage reads a table through `lookup` only.
-/
namespace InToto.Verify
open InToto.Threshold InToto.Json

variable {K : Type}

/-- **Full statement.**  Success and the summary link do not depend on any hash-map iteration order. -/
theorem c13_full (env : Env K) (ord ord' : Ord) (h : ord.Valid) (h' : ord'.Valid)
    (fuel : Nat) (path : List Str) (b : Block K) (keys : List K) (dir : Dir K) (name : Str) (s : Link) :
    (verify env ord fuel path b keys dir name).1 = .ok s ↔ (verify env ord' fuel path b keys dir name).1 = .ok s := by
  rw [← okPart_eq_some, ← okPart_eq_some, verify_order_independent env ord ord' h h']

/-- **The complete result, inspection commands included.**  `Ord.Sequential`: site 2 keeps the layout
    order, site 3 sorts by key id (`seqOrd o` is such a family for every `o`); the hash-map iterations
    proper - signature maps, loaded links, the reference link of the agreement check - stay arbitrary. -/
theorem c13_complete_result_is_determined (env : Env K) (ord ord' : Ord) (h : ord.Valid) (h' : ord'.Valid)
    (hs : ord.Sequential) (hs' : ord'.Sequential)
    (fuel : Nat) (path : List Str) (b : Block K) (keys : List K) (dir : Dir K) (name : Str) :
    verify env ord fuel path b keys dir name = verify env ord' fuel path b keys dir name :=
  verify_sequential_deterministic env ord ord' h h' hs hs' fuel path b keys dir name

/-- the premises are met by the orders the driver evaluates every scenario under -/
theorem c13_code_orders_are_sequential (o : Ord) (h : o.Valid) : (seqOrd o).Valid ∧ (seqOrd o).Sequential :=
  ⟨seqOrd_valid h, seqOrd_sequential o⟩

/-- Evidence of a step is visited in one order whatever order the table holds it in. -/
theorem c13_evidence_visited_in_key_id_order {α : Type} {l l' : List (Str × α)} (hp : l.Perm l')
    (hnd : (l.map Prod.fst).Nodup) : sortKid l = sortKid l' :=
  sortKid_eq_of_perm hp hnd

/-- Failure is order independent as well: a run that does not succeed ends in an error, never in a
    panic, and it fails under one order iff it fails under the other. -/
theorem c13_failure_is_an_error (env : Env K) (ord ord' : Ord) (h : ord.Valid) (h' : ord'.Valid)
    (fuel : Nat) (path : List Str) (b : Block K) (keys : List K) (dir : Dir K) (name : Str) :
    (∃ c, (verify env ord fuel path b keys dir name).1 = .err c) ↔
      (∃ c, (verify env ord' fuel path b keys dir name).1 = .err c) := by
  have key : ∀ (o o' : Ord), o.Valid → o'.Valid →
      (∃ c, (verify env o fuel path b keys dir name).1 = .err c) →
      (∃ c, (verify env o' fuel path b keys dir name).1 = .err c) := by
    intro o o' ho ho' ⟨c, hc⟩
    cases hr : (verify env o' fuel path b keys dir name).1 with
    | err c' => exact ⟨c', rfl⟩
    | panic s => exact absurd hr (verify_no_panic env o' ho' fuel path b keys dir name s)
    | ok s =>
      have := (c13_full env o o' ho ho' fuel path b keys dir name s).mpr hr
      rw [hc] at this; cases this
  exact ⟨key ord ord' h h', key ord' ord h' h⟩

/-- Signature-threshold verification of a block does not depend on the iteration order. -/
theorem c13_block_verdict_order_independent (env : Env K) (ord ord' : Ord) (h : ord.Valid) (h' : ord'.Valid)
    (b : Block K) (t : Nat) (auth : List K) :
    verifyBlockK env ord b t auth = verifyBlockK env ord' b t auth :=
  verifyBlockK_order_independent env ord ord' h h' b t auth

/-- The representative link of a step (the entry with the smallest key id) does not depend on the
    order in which the step's links are enumerated. -/
theorem c13_representative_order_independent {α : Type} {l l' : List (Str × α)} (hp : l.Perm l')
    (hnd : (l.map Prod.fst).Nodup) : minEntry l = minEntry l' :=
  minEntry_perm hp hnd

/-- The agreement check compares every link with an arbitrary reference link of the step; its
    verdict does not depend on which one the iteration order happens to pick. -/
theorem c13_agreement_order_independent (ord ord' : Ord) (h : ord.Valid) (h' : ord'.Valid)
    (links : List (Str × List (Str × Link))) (steps : List Step) :
    checkAgreement ord links steps = checkAgreement ord' links steps := by
  rw [checkAgreement_eq_spec ord h, checkAgreement_eq_spec ord' h']

/-- The verified links of a step are the same set under any order (a permutation of each other,
    no key id twice). -/
theorem c13_verified_links_order_independent (env : Env K) (ord ord' : Ord) (h : ord.Valid) (h' : ord'.Valid)
    (L : Layout K) (loaded : List (Str × List (Str × Block K))) (st : Step)
    (hnd : ((lookup st.name loaded).getD [] |>.map Prod.fst).Nodup) :
    (goodOf env ord L loaded st).Perm (goodOf env ord' L loaded st) :=
  (goodOf_perm env ord ord' h h' L loaded st hnd).1

/-- Recorded witness of the repaired defect: taking the *last* entry in iteration order (the former
    `values().last()`) depends on the order as soon as a step has two different links. -/
theorem c13_former_choice_order_dependent :
    ∃ (l : List (Str × Nat)), (l.map Prod.fst).Nodup ∧ l.getLast? ≠ l.reverse.getLast? :=
  ⟨[(['a'], 1), (['b'], 2)], by decide, by decide⟩

end InToto.Verify
