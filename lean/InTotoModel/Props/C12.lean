import InTotoModel.Model.KeyId
import InTotoModel.Props.C10
import InTotoModel.Props.C11
import InTotoModel.Lemmas.Assoc
/-
  C12 — Key identity is intrinsic, stable, interoperable and cannot be aliased.

  Model: `InToto.KeyId` (src/crypto.rs).  `keyIdWith H utf8 d` is, by definition, a function of the
  key description `d` = (type, scheme, hash-algorithm list, material) alone; every constructor of the
  Rust type ends in `PublicKey::new`, which computes the id from exactly these four components (the
  harness checks that raw bytes, DER, PEM, private-key derivation and JSON give the same id).
-/
namespace InToto.KeyId
open InToto InToto.Json

/-! ### hex -/

theorem hexNibble_facts : ∀ n : Fin 16, hexVal (hexNibble n.val) = some n.val := by decide

theorem c12_hex_round_trip (b : Bytes) : hexDecode (hexEncode b) = some b := by
  induction b with
  | nil => rfl
  | cons x xs ih =>
    have h1 := hexNibble_facts ⟨x.toNat / 16, by have := x.toNat_lt; omega⟩
    have h2 := hexNibble_facts ⟨x.toNat % 16, by omega⟩
    simp only at h1 h2
    simp only [hexEncode, hexDecode, h1, h2, ih]
    have : x.toNat / 16 * 16 + x.toNat % 16 = x.toNat := by omega
    rw [this]
    simp

theorem hexEncode_injective {a b : Bytes} (h : hexEncode a = hexEncode b) : a = b := by
  have := congrArg hexDecode h
  rw [c12_hex_round_trip, c12_hex_round_trip] at this
  exact Option.some.inj this

/-! ### the key-id preimage determines the key description -/

theorem typeName_injective {a b : KeyType} (h : typeName a = typeName b) : a = b := by
  cases a <;> cases b <;> first | rfl | (exfalso; revert h; decide)

theorem map_str_injective {l l' : List Str} (h : l.map JV.str = l'.map JV.str) : l = l' := by
  induction l generalizing l' with
  | nil => cases l' <;> simp_all
  | cons x xs ih =>
    cases l' with
    | nil => simp at h
    | cons y ys =>
      simp only [List.map_cons, List.cons.injEq, JV.str.injEq] at h
      rw [h.1, ih h.2]

/-- The JSON that is hashed into the key id determines the description: two keys with the same id
    preimage are the same key (type, scheme, hash-algorithm list and material).  For RSA keys the
    material travels as PEM; `hpem` says PEM/base64 text determines the DER bytes (the `pem` crate:
    library behaviour, validated differentially) and `hspki` that the DER wrapper determines the key
    bytes (proved for this model as `c12_spki_round_trip` within the size bound). -/
theorem c12_preimage_determines_key (d d' : KeyDesc)
    (hpem : ∀ a b, pemPublicKey a = pemPublicKey b → a = b)
    (hspki : ∀ a b, spkiEncode .rsa a = spkiEncode .rsa b → a = b)
    (h : shimJson d = shimJson d') : d = d' := by
  obtain ⟨t, s, a, m⟩ := d
  obtain ⟨t', s', a', m'⟩ := d'
  unfold shimJson at h
  simp only at h
  have hlist := JV.obj.inj h
  cases a <;> cases a' <;> simp only [List.cons_append, List.nil_append, List.cons.injEq, Prod.mk.injEq,
    JV.str.injEq, JV.obj.injEq, JV.arr.injEq, and_true, true_and] at hlist
  · obtain ⟨ht, hs, hp⟩ := hlist
    have ht' := typeName_injective ht
    subst ht' hs
    have : m = m' := by
      unfold publicText at hp
      cases t <;> simp only at hp
      · exact hexEncode_injective hp
      · exact hspki _ _ (hpem _ _ hp)
      · exact hexEncode_injective hp
    rw [this]
  · exfalso
    obtain ⟨_, _, hk⟩ := hlist
    have : "keyval".toList ≠ "keyid_hash_algorithms".toList := by decide
    exact this hk.1.1
  · exfalso
    obtain ⟨_, _, hk⟩ := hlist
    have : "keyid_hash_algorithms".toList ≠ "keyval".toList := by decide
    exact this hk.1.1
  · obtain ⟨ht, hs, hal, hp⟩ := hlist
    have ht' := typeName_injective ht
    subst ht' hs
    rename_i l l'
    have hal' : l = l' := map_str_injective hal
    subst hal'
    have : m = m' := by
      unfold publicText at hp
      cases t <;> simp only at hp
      · exact hexEncode_injective hp
      · exact hspki _ _ (hpem _ _ hp)
      · exact hexEncode_injective hp
    rw [this]

theorem toNat_ofNat_lt {n : Nat} (h : n < 256) : (UInt8.ofNat n).toNat = n := by
  rw [UInt8.toNat_ofNat']; omega

theorem readTlv_tlv (tag : UInt8) (content rest : Bytes) (ht : tag.toNat % 32 ≠ 31)
    (hl : content.length < 65536) :
    readTlv (tlv tag content ++ rest) = some (tag, content, rest) := by
  unfold tlv derLen
  by_cases h1 : content.length < 128
  · have hn : (UInt8.ofNat content.length).toNat = content.length := toNat_ofNat_lt (by omega)
    simp only [h1, if_true, List.cons_append, List.nil_append, List.singleton_append, readTlv, ht, if_false, hn]
    simp
  · by_cases h2 : content.length < 256
    · have hb : beBytes 8 content.length = [UInt8.ofNat content.length] := by
        have : content.length ≠ 0 := by omega
        have hd : content.length / 256 = 0 := by omega
        simp [beBytes, this, hd]
        congr 1
        omega
      have hn : (UInt8.ofNat content.length).toNat = content.length := toNat_ofNat_lt h2
      simp only [h1, if_false, hb, List.length_singleton, List.cons_append, List.nil_append, readTlv, ht]
      have e1 : (UInt8.ofNat (0x80 + 1)).toNat = 129 := by decide
      have e2 : (UInt8.ofNat (0x80 + 1)) = 0x81 := by decide
      simp [e1, e2, hn]
      omega
    · have hb : beBytes 8 content.length = [UInt8.ofNat (content.length / 256), UInt8.ofNat (content.length % 256)] := by
        have n0 : content.length ≠ 0 := by omega
        have n1 : content.length / 256 ≠ 0 := by omega
        have n2 : content.length / 256 / 256 = 0 := by omega
        simp [beBytes, n0, n1, n2]
        congr 1
        omega
      have ha : (UInt8.ofNat (content.length / 256)).toNat = content.length / 256 := toNat_ofNat_lt (by omega)
      have hbb : (UInt8.ofNat (content.length % 256)).toNat = content.length % 256 := toNat_ofNat_lt (by omega)
      simp only [h1, if_false, hb, List.length_cons, List.length_nil, List.cons_append, List.nil_append, readTlv, ht]
      have e1 : (UInt8.ofNat (0x80 + (0 + 1 + 1))).toNat = 130 := by decide
      have e2 : (UInt8.ofNat (0x80 + (0 + 1 + 1))) = 0x82 := by decide
      have e3 : (0x82 : UInt8) ≠ 0x81 := by decide
      simp [e1, e2, e3, ha, hbb]
      have : content.length / 256 * 256 + content.length % 256 = content.length := by omega
      rw [this]
      simp
      omega


theorem readTlv_tlv_nil (tag : UInt8) (content : Bytes) (ht : tag.toNat % 32 ≠ 31) (hl : content.length < 65536) :
    readTlv (tlv tag content) = some (tag, content, []) := by
  have := readTlv_tlv tag content [] ht hl
  simpa using this

theorem tlv_length_le (tag : UInt8) (content : Bytes) (hl : content.length < 65536) :
    (tlv tag content).length ≤ content.length + 4 := by
  unfold tlv derLen
  by_cases h1 : content.length < 128
  · simp [h1]
  · have : (beBytes 8 content.length).length ≤ 2 := by
      have n0 : content.length ≠ 0 := by omega
      by_cases h2 : content.length / 256 = 0
      · simp [beBytes, n0, h2]
      · have n2 : content.length / 256 / 256 = 0 := by omega
        simp [beBytes, n0, h2, n2]
    simp [h1]
    omega

/-- SubjectPublicKeyInfo export followed by import returns the key type and the key bytes, for
    all three supported algorithms (RSA with NULL parameters, Ed25519 without parameters as RFC 8410
    prescribes, ECDSA with the P-256 curve identifier). -/
theorem c12_spki_round_trip (t : KeyType) (pub : Bytes) (hl : pub.length < 60000) :
    spkiDecode (spkiEncode t pub) = some (t, pub) := by
  have hbits : (0 :: pub).length < 65536 := by simp; omega
  have halg : (algId t).length ≤ 30 := by cases t <;> decide
  have hbl := tlv_length_le 0x03 (0 :: pub) hbits
  have hal := tlv_length_le 0x30 (algId t) (by omega)
  have houter : (tlv 0x30 (algId t) ++ tlv 0x03 (0 :: pub)).length < 65536 := by
    simp only [List.length_append, List.length_cons] at hbl ⊢
    omega
  unfold spkiEncode spkiDecode
  rw [readTlv_tlv_nil 0x30 _ (by decide) houter]
  simp only
  rw [readTlv_tlv 0x30 (algId t) _ (by decide) (by omega)]
  simp only
  have hbitsr := readTlv_tlv_nil 0x03 (0 :: pub) (by decide) hbits
  cases t with
  | rsa =>
    have h1 : readTlv (algId .rsa) = some (0x06, oidRsa, [0x05, 0x00]) := by decide
    have h2 : typeOfOid oidRsa = some .rsa := by decide
    have h3 : readTlv [0x05, 0x00] = some (0x05, [], []) := by decide
    simp [h1, h2, h3, hbitsr]
  | ed25519 =>
    have h1 : readTlv (algId .ed25519) = some (0x06, oidEd25519, []) := by decide
    have h2 : typeOfOid oidEd25519 = some .ed25519 := by decide
    simp [h1, h2, hbitsr]
  | ecdsa =>
    have h1 : readTlv (algId .ecdsa) = some (0x06, oidEc, tlv 0x06 oidP256) := by decide
    have h2 : typeOfOid oidEc = some .ecdsa := by decide
    have h3 : readTlv (tlv 0x06 oidP256) = some (0x06, oidP256, []) := by decide
    simp [h1, h2, h3, hbitsr]

/-- The DER wrapper determines the key bytes (discharges `hspki` of `c12_preimage_determines_key`
    within the size bound, which covers RSA moduli far beyond 8192 bits). -/
theorem c12_spki_injective (t : KeyType) (a b : Bytes) (ha : a.length < 60000) (hb : b.length < 60000)
    (h : spkiEncode t a = spkiEncode t b) : a = b := by
  have e1 := c12_spki_round_trip t a ha
  have e2 := c12_spki_round_trip t b hb
  rw [h, e2] at e1
  cases e1
  rfl

/-- A standards-conformant SubjectPublicKeyInfo of a supported algorithm is `spkiEncode t pub` (DER
    has exactly one encoding of a value); importing and re-exporting it returns the same bytes. -/
theorem c12_standard_spki_reexports_unchanged (t : KeyType) (pub der : Bytes) (hl : pub.length < 60000)
    (hstd : der = spkiEncode t pub) :
    ∃ t' pub', spkiDecode der = some (t', pub') ∧ spkiEncode t' pub' = der := by
  subst hstd
  exact ⟨t, pub, c12_spki_round_trip t pub hl, rfl⟩

/-! ### key table of a parsed layout -/

/-- A parsed layout's key table never maps an identifier to a key with a different intrinsic id. -/
theorem c12_key_table_only_intrinsic_ids {K : Type} (kidOf : K → Str) (table : List (Str × K)) :
    ∀ e ∈ filterKeyTable kidOf table, e.1 = kidOf e.2 := by
  intro e he
  simp only [filterKeyTable, List.mem_filter, decide_eq_true_eq] at he
  exact he.2

/-- Hence a lookup by identifier X only ever yields the key whose identifier is X — the hypothesis
    `hkeys` of C02 / C15 holds for every parsed layout. -/
theorem c12_lookup_yields_key_of_that_id {K : Type} (kidOf : K → Str) (table : List (Str × K)) (id : Str) (k : K)
    (h : Verify.lookup id (filterKeyTable kidOf table) = some k) : kidOf k = id := by
  have := c12_key_table_only_intrinsic_ids kidOf table (id, k) (Verify.mem_of_lookup h)
  exact this.symm

end InToto.KeyId
