import InTotoModel.Lemmas.Verify
/-
  C01 — Only a layout validly signed by every trusted owner key is enforced.

  Model: `InToto.Verify.verify` (= `in_toto_verify`, src/verifylib.rs).  `keys` are the values of the
  caller's key map (the ids the caller files them under are not used by the code — only `len()` and
  `values()`), `env.valid k m v` stands for "v is a cryptographically valid signature by k over the
  canonical form of m" (ring + the signed-text derivation of C11), `env.kidOf` is the intrinsic key id.
  Holds for every environment, every hash-map iteration order and every amount of fuel.
-/
namespace InToto.Verify
open InToto.Threshold

variable {K : Type}

/-- Success implies: at least one trusted key was supplied, no two supplied keys are the same key
    (no aliasing), the block is a layout, and every supplied key has a valid signature, attributed to
    its own id, over exactly the block's signed content. -/
theorem c01_layout_signed_by_every_trusted_key {env : Env K} {ord : Ord} (hord : ord.Valid)
    {fuel : Nat} {path : List Str} {b : Block K} {keys : List K} {dir : Dir K} {name : Str} {s : Link}
    (h : (verify env ord fuel path b keys dir name).1 = .ok s) :
    keys ≠ [] ∧ (keys.map env.kidOf).Nodup ∧ (∃ L, b.signed = .layout L) ∧
      ∀ k ∈ keys, ∃ σ ∈ b.sigs, σ.kid = env.kidOf k ∧ env.valid k b.signed σ.val = true := by
  obtain ⟨f, rfl⟩ := verify_ok_fuel h
  obtain ⟨p⟩ := verify_ok_inv h
  have ⟨hm, hs⟩ := verifyBlockK_ok p.hsig
  have ⟨ht, ids, hnd, hlen, hids⟩ := c04_sound env.kidOf _ (ord.perm 0) (hord 0 _) b.sigs keys.length keys hs
  have hsub : ∀ id ∈ ids, id ∈ keys.map env.kidOf := by
    intro id hid
    obtain ⟨k, hk, hkid, _⟩ := hids id hid
    exact List.mem_map.mpr ⟨k, hk, hkid⟩
  have ⟨hnodup, hcover⟩ := nodup_of_covering env.kidOf keys ids hnd hsub hlen
  refine ⟨?_, hnodup, ⟨p.L, hm.symm⟩, ?_⟩
  · intro e; subst e; simp at ht
  · intro k hk
    obtain ⟨k', hk', hkid, σ, hσ, hσk, hv⟩ := hids (env.kidOf k) (hcover k hk)
    have : k' = k := eq_of_nodup_map env.kidOf hnodup hk' hk hkid
    subst this
    exact ⟨σ, hσ, hσk, hv⟩

/-- The content that is enforced is the content whose signatures were checked: every later stage
    works on the layout `L` with `b.signed = .layout L`. -/
theorem c01_enforced_layout_is_signed_layout {env : Env K} {ord : Ord}
    {fuel : Nat} {path : List Str} {b : Block K} {keys : List K} {dir : Dir K} {name : Str} {s : Link}
    (h : (verify env ord (fuel + 1) path b keys dir name).1 = .ok s) :
    ∃ p : Passed env ord fuel path b keys dir name s, b.signed = .layout p.L := by
  obtain ⟨p⟩ := verify_ok_inv h
  exact ⟨p, (verifyBlockK_ok p.hsig).1.symm⟩

/-! The failure clauses of the statement, as contrapositives. -/

theorem c01_fails_without_trusted_keys {env : Env K} {ord : Ord} (hord : ord.Valid)
    (fuel : Nat) (path : List Str) (b : Block K) (dir : Dir K) (name : Str) (s : Link) :
    (verify env ord fuel path b [] dir name).1 ≠ .ok s := by
  intro h
  exact (c01_layout_signed_by_every_trusted_key hord h).1 rfl

theorem c01_fails_on_aliased_keys {env : Env K} {ord : Ord} (hord : ord.Valid)
    (fuel : Nat) (path : List Str) (b : Block K) (keys : List K) (dir : Dir K) (name : Str) (s : Link)
    (halias : ¬ (keys.map env.kidOf).Nodup) :
    (verify env ord fuel path b keys dir name).1 ≠ .ok s := by
  intro h
  exact halias (c01_layout_signed_by_every_trusted_key hord h).2.1

theorem c01_fails_on_missing_or_invalid_owner_signature {env : Env K} {ord : Ord} (hord : ord.Valid)
    (fuel : Nat) (path : List Str) (b : Block K) (keys : List K) (dir : Dir K) (name : Str) (s : Link)
    (k : K) (hk : k ∈ keys)
    (hbad : ∀ σ ∈ b.sigs, σ.kid = env.kidOf k → env.valid k b.signed σ.val = false) :
    (verify env ord fuel path b keys dir name).1 ≠ .ok s := by
  intro h
  obtain ⟨σ, hσ, hid, hv⟩ := (c01_layout_signed_by_every_trusted_key hord h).2.2.2 k hk
  rw [hbad σ hσ hid] at hv
  cases hv

theorem c01_fails_if_not_a_layout {env : Env K} {ord : Ord} (hord : ord.Valid)
    (fuel : Nat) (path : List Str) (b : Block K) (keys : List K) (dir : Dir K) (name : Str) (s : Link)
    (l : Link) (hl : b.signed = .link l) :
    (verify env ord fuel path b keys dir name).1 ≠ .ok s := by
  intro h
  obtain ⟨L, hL⟩ := (c01_layout_signed_by_every_trusted_key hord h).2.2.1
  rw [hl] at hL
  cases hL

end InToto.Verify
