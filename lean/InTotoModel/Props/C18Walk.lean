import InTotoModel.Lemmas.RecordWalk
/-
  C18 — "one entry for each regular file reachable under them (following symbolic links to files and
  directories, tolerating link cycles) ... nothing else is recorded", for the walk of
  `Model/Record.lean` (the model that the `record` differential compares with walkdir + the real
  recorder on materialised trees, and the harness's own `std::fs` walk checks independently).

  `Reach` (in `Lemmas/RecordWalk.lean`) is the specification: a regular file that is a child of the
  directory - directly or through links - or reachable in the same way from a child directory, unless
  that child is a link back to a directory being visited.
-/
namespace InToto.Record
open InToto

/-- A successful walk of a directory records exactly the reachable regular files: each of them, and
    nothing else - for every tree, every depth, every arrangement of links. -/
theorem c18_walk_records_exactly_the_reachable_files (root : Node) (rootAbs : List Str) (fuel : Nat)
    (display : Str) (canon : List Str) (stack : List (List Str)) (r : List Entry)
    (h : walkDir root rootAbs fuel display canon stack = .ok r) (x : Entry) :
    x ∈ r ↔ Reach root rootAbs fuel display canon stack x :=
  ⟨walkDir_sound root rootAbs fuel display canon stack r h x, walkDir_complete root rootAbs fuel display canon stack r h x⟩

/-- A path argument that leads (through any links) to a regular file yields that file alone, under the
    argument's normalised spelling; one that leads to a directory yields that directory's walk. -/
theorem c18_argument_entries (root : Node) (rootAbs : List Str) (fuel : Nat) (arg : Str) (r : List Entry)
    (h : walkArg root rootAbs fuel arg = .ok r) :
    (∃ cp id content, resolve root rootAbs fuel [] (splitComps (PathClean.clean arg)) = some (cp, .file id content) ∧
        r = [{ key := PathClean.clean arg, fileId := id, content := content }]) ∨
    (∃ cp ds, resolve root rootAbs fuel [] (splitComps (PathClean.clean arg)) = some (cp, .dir ds) ∧
        ∀ x, x ∈ r ↔ Reach root rootAbs fuel (PathClean.clean arg) cp [] x) := by
  unfold walkArg at h
  simp only at h
  cases hr : resolve root rootAbs fuel [] (splitComps (PathClean.clean arg)) with
  | none => rw [hr] at h; simp at h
  | some p =>
    obtain ⟨cp, n⟩ := p
    rw [hr] at h
    cases n with
    | file id content =>
      simp only [Out.ok.injEq] at h
      exact Or.inl ⟨cp, id, content, rfl, h.symm⟩
    | link t => simp at h
    | dir ds =>
      simp only at h
      exact Or.inr ⟨cp, ds, rfl, fun x => c18_walk_records_exactly_the_reachable_files root rootAbs fuel _ cp [] r h x⟩

/- Non-vacuity: a tree with a file, a sub-directory with a file and a link back to the root; the walk
   succeeds and finds both files (the link cycle is skipped). -/
def exTree : Node :=
  .dir [("a".toList, .file 1 [1]), ("sub".toList, .dir [("b".toList, .file 2 [2]), ("up".toList, .link "..".toList)])]

example : ∃ r, walkDir exTree [] 5 ".".toList [] [] = .ok r ∧ r.map (·.fileId) = [1, 2] := ⟨_, rfl, rfl⟩

end InToto.Record
