import InTotoModel.Lemmas.NoPanic
import InTotoModel.Lemmas.Fuel
import InTotoModel.Props.C20
import InTotoModel.Generated.PanicSites
/-
  C14 — Untrusted bytes can make verification fail but never crash it.

  What a proof can carry: *panic-freedom of the modelled code*.  Every slice, index, `unwrap`,
  `expect`, `assert!` and `panic!` of the modelled Rust functions is an explicit branch of the
  model whose failing side is `Out.panic site`; the theorems below show that no input reaches such a
  branch.  The inventory of all such sites in the crate's non-test source is regenerated from the
  source on every run (`Generated.PanicSites`, translate/panics.py) and every site must carry a
  classification (translate/panic_sites.json): proved here, unreachable behind a guard a few lines
  above, total library call, or reachable only through an argument the *caller* chooses.
  What it cannot carry: absence of panics, aborts, stack overflow and non-termination inside
  serde_json, ring, derp, pem, glob, chrono and walkdir — for those the check fuzzes every parser and
  importer entry point and runs verification over link directories seeded with hostile files
  (supporting evidence, not proof).  Claimed partial.
-/
namespace InToto.Verify
open InToto.Generated

variable {K : Type}

/-- Final-product verification never panics: for every layout block, key set, link directory
    (whatever files it contains), environment, iteration order and fuel. -/
theorem c14_verify_never_panics (env : Env K) (ord : Ord) (hord : ord.Valid) (fuel : Nat)
    (path : List Str) (b : Block K) (keys : List K) (dir : Dir K) (name : Str) (s : Nat) :
    (verify env ord fuel path b keys dir name).1 ≠ .panic s :=
  verify_no_panic env ord hord fuel path b keys dir name s

/-- In particular the indexing done while building the summary link always hits an entry: every
    step name is a key of the table of reduced links. -/
theorem c14_summary_lookups_succeed (L : Layout K) (reduced : List (Str × Link)) (name : Str)
    (h : ∀ st ∈ L.steps, (lookup st.name reduced).isSome) (s : Nat) : summary L reduced name ≠ .panic s :=
  summary_no_panic L reduced name h s

/-- Rule application never panics, whatever paths (normalised or not), patterns and link tables. -/
theorem c14_rules_never_panic (item : Rules.Item) (reduced : List (Str × Rules.LinkArts)) (s : Nat) :
    Rules.applyRulesOnLink item reduced ≠ .panic s :=
  Rules.applyRulesOnLink_no_panic item reduced s

/-- Block verification never panics. -/
theorem c14_block_verification_never_panics (env : Env K) (ord : Ord) (b : Block K) (t : Nat) (auth : List K) (s : Nat) :
    verifyBlockK env ord b t auth ≠ .panic s :=
  verifyBlockK_no_panic env ord b t auth s

/-- Unpacking an envelope pre-authentication encoding never panics. -/
theorem c14_pae_unpack_never_panics (utf8ok : Bytes → Bool) (bs : Bytes) (s : Nat) :
    Pae.unpack utf8ok bs ≠ .panic s :=
  Pae.c20_unpack_no_panic utf8ok bs s

/-- The recursion into sub-layouts ends, and the model's fuel is no limit of its own: a delegation goes
    one directory level down (and a directory without files offers no evidence to delegate with), so
    with fuel beyond the depth of the link directory plus one the complete result - verdict, error
    stage, summary, inspection commands - is the same for every larger amount.  The model's answer for
    an exhausted fuel (`err 5` from `verify … 0`) is therefore never an artefact of the fuel chosen. -/
theorem c14_recursion_ends_with_the_directory_tree (env : Env K) (ord : Ord) (hord : ord.Valid)
    (path : List Str) (b : Block K) (keys : List K) (dir : Dir K) (name : Str) (fuel : Nat)
    (hf : dir.depth + 1 ≤ fuel) (extra : Nat) :
    verify env ord (fuel + extra) path b keys dir name = verify env ord fuel path b keys dir name :=
  verify_fuel_enough env ord hord path b keys dir name fuel hf extra

/-- (the premise is met: the depth of a directory tree is a number - e.g. the empty directory has depth
    0, so fuel 1 is enough for it) -/
example (env : Env K) (ord : Ord) (hord : ord.Valid) (b : Block K) (keys : List K) (name : Str) (extra : Nat) :
    verify env ord (1 + extra) [] b keys Dir.empty name = verify env ord 1 [] b keys Dir.empty name :=
  c14_recursion_ends_with_the_directory_tree env ord hord [] b keys Dir.empty name 1 (by simp [depth_empty]) extra

/-- `KeyId::prefix` is total on every string (it takes the first eight characters). -/
theorem c14_prefix_total (kid : Str) : (prefix8 kid).length ≤ 8 := by
  simp [prefix8, List.length_take]
  omega

/-- Every panic site of the crate's source (as scanned on this run) is classified. -/
theorem c14_every_panic_site_classified :
    panicSites.all (fun s => s.cls != .unclassified) = true := by
  decide

end InToto.Verify
