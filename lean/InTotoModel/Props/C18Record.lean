import InTotoModel.Props.C18
import InTotoModel.Props.C18Walk
/-
  C18 — `record_artifacts` as a whole (several path arguments, strip prefixes, the duplicate check):
  when it succeeds, every path argument was walked; every file found under any argument has an entry
  under its stripped key, and that entry is this very file (not another one that took its place);
  every entry is such a file; keys are pairwise distinct.  With `c18_argument_entries` /
  `c18_walk_records_exactly_the_reachable_files` "found under an argument" is "reachable regular
  file", and with `Props/C18Digest.lean` the digest recorded for it is the digest of its bytes.
-/
namespace InToto.Record
open InToto

theorem insertUnique_sub {acc : List Entry} {e : Entry} {r : List Entry} (h : insertUnique acc e = .ok r) :
    ∀ x ∈ r, x ∈ acc ∨ x = e := by
  unfold insertUnique at h
  split at h
  · cases h
    intro x hx
    rcases List.mem_append.mp hx with hx | hx
    · exact Or.inl hx
    · exact Or.inr (List.mem_singleton.mp hx)
  · split at h
    · cases h; intro x hx; exact Or.inl hx
    · cases h

theorem insertAll_sub (acc es r : List Entry) (h : insertAll acc es = .ok r) : ∀ x ∈ r, x ∈ acc ∨ x ∈ es := by
  induction es generalizing acc with
  | nil => simp only [insertAll] at h; cases h; intro x hx; exact Or.inl hx
  | cons e rest ih =>
    simp only [insertAll] at h
    split at h
    · rename_i acc' hins
      intro x hx
      rcases ih acc' h x hx with hx | hx
      · rcases insertUnique_sub hins x hx with hx | hx
        · exact Or.inl hx
        · exact Or.inr (by simp [hx])
      · exact Or.inr (by simp [hx])
    · cases h
    · cases h

/-- the entries of one argument, with the strip prefixes applied -/
def stripped (strips : Option (List Str)) (es : List Entry) : List Entry :=
  es.map fun e => { e with key := applyLeftStrip e.key strips }

/-- the loop of `recordArtifacts` from an accumulator -/
def recordFrom (root : Node) (rootAbs : List Str) (fuel : Nat) (strips : Option (List Str)) (args : List Str)
    (acc : Out (List Entry)) : Out (List Entry) :=
  args.foldl (fun acc arg =>
    match acc with
    | .ok sofar =>
      match walkArg root rootAbs fuel arg with
      | .ok es => insertAll sofar (es.map fun e => { e with key := applyLeftStrip e.key strips })
      | .err c => .err c
      | .panic s => .panic s
    | other => other) acc

theorem recordFrom_not_ok (root : Node) (rootAbs : List Str) (fuel : Nat) (strips : Option (List Str))
    (args : List Str) (a : Out (List Entry)) (h : ∀ x, a ≠ .ok x) : ∀ r, recordFrom root rootAbs fuel strips args a ≠ .ok r := by
  induction args generalizing a with
  | nil => simpa [recordFrom] using h
  | cons arg rest ih =>
    intro r
    simp only [recordFrom, List.foldl_cons]
    apply ih
    intro x
    cases a with
    | ok y => exact absurd rfl (h y)
    | err c => simp
    | panic s => simp

theorem recordFrom_spec (root : Node) (rootAbs : List Str) (fuel : Nat) (strips : Option (List Str))
    (args : List Str) (acc r : List Entry) (hnd : (acc.map Entry.key).Nodup)
    (h : recordFrom root rootAbs fuel strips args (.ok acc) = .ok r) :
    (r.map Entry.key).Nodup ∧ (∀ x ∈ acc, x ∈ r) ∧
    (∀ arg ∈ args, ∃ es, walkArg root rootAbs fuel arg = .ok es ∧
        ∀ e ∈ stripped strips es, ∃ x ∈ r, x.key = e.key ∧ x.fileId = e.fileId) ∧
    (∀ x ∈ r, x ∈ acc ∨ ∃ arg ∈ args, ∃ es, walkArg root rootAbs fuel arg = .ok es ∧ x ∈ stripped strips es) := by
  induction args generalizing acc with
  | nil =>
    simp only [recordFrom, List.foldl_nil, Out.ok.injEq] at h
    subst h
    exact ⟨hnd, fun x hx => hx, by simp, fun x hx => Or.inl hx⟩
  | cons arg rest ih =>
    simp only [recordFrom, List.foldl_cons] at h
    cases hw : walkArg root rootAbs fuel arg with
    | err c => rw [hw] at h; exact absurd h (recordFrom_not_ok root rootAbs fuel strips rest _ (by simp) r)
    | panic s => rw [hw] at h; exact absurd h (recordFrom_not_ok root rootAbs fuel strips rest _ (by simp) r)
    | ok es =>
      rw [hw] at h
      simp only at h
      cases hi : insertAll acc (es.map fun e => { e with key := applyLeftStrip e.key strips }) with
      | err c => rw [hi] at h; exact absurd h (recordFrom_not_ok root rootAbs fuel strips rest _ (by simp) r)
      | panic s => rw [hi] at h; exact absurd h (recordFrom_not_ok root rootAbs fuel strips rest _ (by simp) r)
      | ok acc' =>
        rw [hi] at h
        obtain ⟨n1, k1, a1⟩ := c18_no_silent_replacement acc _ acc' hi hnd
        obtain ⟨n2, k2, a2, s2⟩ := ih acc' n1 h
        refine ⟨n2, fun x hx => k2 x (k1 x hx), ?_, ?_⟩
        · intro a ha
          rcases List.mem_cons.mp ha with rfl | hr
          · refine ⟨es, hw, ?_⟩
            intro e he
            obtain ⟨x, hx, hk, hid⟩ := a1 e he
            exact ⟨x, k2 x hx, hk, hid⟩
          · exact a2 a hr
        · intro x hx
          rcases s2 x hx with hx | ⟨a, ha, es', hw', hx'⟩
          · rcases insertAll_sub acc _ acc' hi x hx with hx | hx
            · exact Or.inl hx
            · exact Or.inr ⟨arg, by simp, es, hw, hx⟩
          · exact Or.inr ⟨a, by simp [ha], es', hw', hx'⟩

/-- **`record_artifacts`**: on success, every argument was walked; every file found under an argument
    has an entry under its stripped key which is this very file; every entry is such a file; keys are
    pairwise distinct. -/
theorem c18_record_artifacts (root : Node) (rootAbs : List Str) (fuel : Nat) (args : List Str)
    (strips : Option (List Str)) (r : List Entry) (h : recordArtifacts root rootAbs fuel args strips = .ok r) :
    (r.map Entry.key).Nodup ∧
    (∀ arg ∈ args, ∃ es, walkArg root rootAbs fuel arg = .ok es ∧
        ∀ e ∈ stripped strips es, ∃ x ∈ r, x.key = e.key ∧ x.fileId = e.fileId) ∧
    (∀ x ∈ r, ∃ arg ∈ args, ∃ es, walkArg root rootAbs fuel arg = .ok es ∧ x ∈ stripped strips es) := by
  have h' : recordFrom root rootAbs fuel strips args (.ok []) = .ok r := h
  obtain ⟨n, _, a, s⟩ := recordFrom_spec root rootAbs fuel strips args [] r (by simp) h'
  refine ⟨n, a, ?_⟩
  intro x hx
  rcases s x hx with hx | hx
  · cases hx
  · exact hx

end InToto.Record
