import InTotoModel.Lemmas.VerifySpec
import InTotoModel.Props.Scenario
/-
  The pipeline model computes the specification `Spec/Verify.lean` - soundness *and* completeness of
  `in_toto_verify` as modelled, for every environment (key ids, signature validity, clock,
  inspection outcomes), every valid family of hash-map iteration orders and every fuel.

  This is the refinement theorem behind the pipeline properties: C01 (clause 1), C02 (clauses 3-4),
  C06 (clause 2), C07 (clause 6), C08 (clauses 7-8 come after 1-6; an inspection that does not exit
  with 0 is clause 8 failing), C13 (the right-hand side mentions no order), C15 (clause 5: a
  delegated layout stands for the summary of its own complete verification, or for nothing).
  The per-property files keep their own, more specific theorems; here the two directions are stated
  once, for all clauses together.
-/
namespace InToto.VerifySpec
open InToto InToto.Verify InToto.Rules InToto.Threshold

variable {K : Type}

/-- **Refinement.**  Whether verification succeeds, and the summary link if it does, are given by the
    specification - whatever the iteration orders. -/
theorem c13_verify_computes_the_specification (env : Env K) (ord : Ord) (hord : ord.Valid)
    (fuel : Nat) (path : List Str) (b : Block K) (keys : List K) (dir : Dir K) (name : Str) :
    okPart (verify env ord fuel path b keys dir name).1 = accepts env fuel path b keys dir name :=
  okPart_verify_eq_accepts env ord hord fuel path b keys dir name

/-- **Soundness and completeness, clause by clause.**  Verification succeeds with summary `out` exactly
    when: the block holds a layout; every caller key - at least one, no two alike - has validly signed
    it; it has not expired; its step names are distinct and usable, the files named like evidence
    readable; every step has at least `threshold` pieces of counted evidence, each standing for a link
    (sub-layouts through their own complete verification one level down); links of multi-party steps
    agree; every step has a representative and the step rules hold on them; every inspection runs
    and exits with 0 and the inspection rules hold; `out` is the summary. -/
theorem c02_success_iff_every_clause_holds (env : Env K) (ord : Ord) (hord : ord.Valid)
    (fuel : Nat) (path : List Str) (b : Block K) (keys : List K) (dir : Dir K) (name : Str) (out : Link) :
    (verify env ord (fuel + 1) path b keys dir name).1 = .ok out ↔
      Accepted (accepts env fuel) env path b keys dir name out := by
  rw [← okPart_eq_some, okPart_verify_eq_accepts env ord hord]
  exact acceptsStep_iff (accepts env fuel) env path b keys dir name out

/-- C01, both directions of the owner clause: without clause 1 no success (under any order) -/
theorem c01_fails_unless_every_owner_signed (env : Env K) (ord : Ord) (hord : ord.Valid)
    (fuel : Nat) (path : List Str) (b : Block K) (keys : List K) (dir : Dir K) (name : Str)
    (h : ownersSigned env b keys = false) (out : Link) :
    (verify env ord fuel path b keys dir name).1 ≠ .ok out := by
  intro hok
  cases fuel with
  | zero => rw [verify_zero] at hok; cases hok
  | succ f =>
    obtain ⟨L, _, _, _, _, ho, _⟩ := ((c02_success_iff_every_clause_holds env ord hord f path b keys dir name out).mp hok).clauses
    rw [h] at ho; cases ho

/-- what clause 1 says, in words: at least one key, pairwise different ids, and each key's own entry
    in the signature list (the last one under its id) verifies the block's content -/
theorem c01_owners_clause_unfolded (env : Env K) (b : Block K) (keys : List K) :
    ownersSigned env b keys = true ↔
      keys ≠ [] ∧ (keys.map env.kidOf).Nodup ∧
        ∀ k ∈ keys, ∃ v, sigFor b (env.kidOf k) = some v ∧ env.valid k b.signed v = true := by
  unfold ownersSigned
  simp only [Bool.and_eq_true, Bool.not_eq_true', List.all_eq_true, distinct_iff]
  constructor
  · intro ⟨⟨h1, h2⟩, h3⟩
    refine ⟨by intro e; subst e; simp at h1, h2, ?_⟩
    intro k hk
    have := h3 k hk
    unfold signedBy at this
    cases hs : sigFor b (env.kidOf k) with
    | none => rw [hs] at this; cases this
    | some v => rw [hs] at this; exact ⟨v, rfl, this⟩
  · intro ⟨h1, h2, h3⟩
    refine ⟨⟨by cases keys with | nil => exact absurd rfl h1 | cons _ _ => rfl, h2⟩, ?_⟩
    intro k hk
    obtain ⟨v, hs, hv⟩ := h3 k hk
    unfold signedBy
    rw [hs]; exact hv

/-- what "counts" says, in words (clause 4) -/
theorem c02_counts_unfolded (env : Env K) (L : Layout K) (st : Step) (e : Str × Block K) :
    counts env L st e = true ↔
      e.1 ∈ st.pubkeys ∧ ∃ k, lookup e.1 L.keys = some k ∧ signedBy env e.2 k = true := by
  unfold counts
  simp only [Bool.and_eq_true, decide_eq_true_eq]
  constructor
  · intro ⟨h1, h2⟩
    refine ⟨h1, ?_⟩
    cases hk : lookup e.1 L.keys with
    | none => rw [hk] at h2; cases h2
    | some k => rw [hk] at h2; exact ⟨k, rfl, h2⟩
  · intro ⟨h1, k, hk, hs⟩
    refine ⟨h1, ?_⟩
    rw [hk]; exact hs

/-- non-vacuity: the specification accepts the kernel-checked scenario (threshold-2 step, delegated
    step, MATCH rule, inspection) with the summary the model returns -/
theorem c13_specification_accepts_the_scenario :
    accepts Scenario.env 2 [] Scenario.block [0] Scenario.dir "final".toList = some Scenario.summaryLink := by
  rw [← okPart_verify_eq_accepts Scenario.env Scenario.idOrd Scenario.idOrd_valid, Scenario.verifies_id]
  rfl

/-- ... and rejects its failing variants -/
theorem c13_specification_rejects_dissent :
    accepts Scenario.env 2 [] Scenario.block [0] Scenario.dissentDir "final".toList = none := by
  rw [← okPart_verify_eq_accepts Scenario.env Scenario.idOrd Scenario.idOrd_valid, okPart_verify_eq_verifyC,
    Scenario.dissent_fails]

end InToto.VerifySpec
