import InTotoModel.Lemmas.VerifySpec
import InTotoModel.Lemmas.Fuel
import InTotoModel.Lemmas.InspectOrder
import InTotoModel.Lemmas.TimeMono
import InTotoModel.Lemmas.OtherFiles
import InTotoModel.Lemmas.OwnersOnly
import InTotoModel.Lemmas.Unauthorized
import InTotoModel.Props.Scenario
/-
  The pipeline model computes the specification `Spec/Verify.lean` - soundness *and* completeness of
  `in_toto_verify` as modelled, for every environment (key ids, signature validity, clock,
  inspection outcomes), every valid family of hash-map iteration orders and every fuel.

  This is the refinement theorem behind the pipeline properties: C01 (clause 1), C02 (clauses 3-4),
  C06 (clause 2), C07 (clause 6), C08 (clauses 7-8 come after 1-6; an inspection that does not exit
  with 0 is clause 8 failing), C13 (the right-hand side mentions no order), C15 (clause 5: a
  delegated layout stands for the summary of its own complete verification, or for nothing).
  The per-property files keep their own, more specific theorems; here the two directions are stated
  once, for all clauses together.
-/
namespace InToto.VerifySpec
open InToto InToto.Verify InToto.Rules InToto.Threshold

variable {K : Type}

/-- **Refinement.**  Whether verification succeeds, and the summary link if it does, are given by the
    specification - whatever the iteration orders. -/
theorem c13_verify_computes_the_specification (env : Env K) (ord : Ord) (hord : ord.Valid)
    (fuel : Nat) (path : List Str) (b : Block K) (keys : List K) (dir : Dir K) (name : Str) :
    okPart (verify env ord fuel path b keys dir name).1 = accepts env fuel path b keys dir name :=
  okPart_verify_eq_accepts env ord hord fuel path b keys dir name

/-- **Soundness and completeness, clause by clause.**  Verification succeeds with summary `out` exactly
    when: the block holds a layout; every caller key - at least one, no two alike - has validly signed
    it; it has not expired; its step names are distinct and usable, the files named like evidence
    readable; every step has at least `threshold` pieces of counted evidence, each standing for a link
    (sub-layouts through their own complete verification one level down); links of multi-party steps
    agree; every step has a representative and the step rules hold on them; every inspection runs
    and exits with 0 and the inspection rules hold; `out` is the summary. -/
theorem c02_success_iff_every_clause_holds (env : Env K) (ord : Ord) (hord : ord.Valid)
    (fuel : Nat) (path : List Str) (b : Block K) (keys : List K) (dir : Dir K) (name : Str) (out : Link) :
    (verify env ord (fuel + 1) path b keys dir name).1 = .ok out ↔
      Accepted (accepts env fuel) env path b keys dir name out := by
  rw [← okPart_eq_some, okPart_verify_eq_accepts env ord hord]
  exact acceptsStep_iff (accepts env fuel) env path b keys dir name out

/-- C01, both directions of the owner clause: without clause 1 no success (under any order) -/
theorem c01_fails_unless_every_owner_signed (env : Env K) (ord : Ord) (hord : ord.Valid)
    (fuel : Nat) (path : List Str) (b : Block K) (keys : List K) (dir : Dir K) (name : Str)
    (h : ownersSigned env b keys = false) (out : Link) :
    (verify env ord fuel path b keys dir name).1 ≠ .ok out := by
  intro hok
  cases fuel with
  | zero => rw [verify_zero] at hok; cases hok
  | succ f =>
    obtain ⟨L, _, _, _, _, ho, _⟩ := ((c02_success_iff_every_clause_holds env ord hord f path b keys dir name out).mp hok).clauses
    rw [h] at ho; cases ho

/-- what clause 1 says, in words: at least one key, pairwise different ids, and each key's own entry
    in the signature list (the last one under its id) verifies the block's content -/
theorem c01_owners_clause_unfolded (env : Env K) (b : Block K) (keys : List K) :
    ownersSigned env b keys = true ↔
      keys ≠ [] ∧ (keys.map env.kidOf).Nodup ∧
        ∀ k ∈ keys, ∃ v, sigFor b (env.kidOf k) = some v ∧ env.valid k b.signed v = true := by
  unfold ownersSigned
  simp only [Bool.and_eq_true, Bool.not_eq_true', List.all_eq_true, distinct_iff]
  constructor
  · intro ⟨⟨h1, h2⟩, h3⟩
    refine ⟨by intro e; subst e; simp at h1, h2, ?_⟩
    intro k hk
    have := h3 k hk
    unfold signedBy at this
    cases hs : sigFor b (env.kidOf k) with
    | none => rw [hs] at this; cases this
    | some v => rw [hs] at this; exact ⟨v, rfl, this⟩
  · intro ⟨h1, h2, h3⟩
    refine ⟨⟨by cases keys with | nil => exact absurd rfl h1 | cons _ _ => rfl, h2⟩, ?_⟩
    intro k hk
    obtain ⟨v, hs, hv⟩ := h3 k hk
    unfold signedBy
    rw [hs]; exact hv

/-- what "counts" says, in words (clause 4) -/
theorem c02_counts_unfolded (env : Env K) (L : Layout K) (st : Step) (e : Str × Block K) :
    counts env L st e = true ↔
      e.1 ∈ st.pubkeys ∧ ∃ k, lookup e.1 L.keys = some k ∧ signedBy env e.2 k = true := by
  unfold counts
  simp only [Bool.and_eq_true, decide_eq_true_eq]
  constructor
  · intro ⟨h1, h2⟩
    refine ⟨h1, ?_⟩
    cases hk : lookup e.1 L.keys with
    | none => rw [hk] at h2; cases h2
    | some k => rw [hk] at h2; exact ⟨k, rfl, h2⟩
  · intro ⟨h1, k, hk, hs⟩
    refine ⟨h1, ?_⟩
    rw [hk]; exact hs

/-- non-vacuity: the specification accepts the kernel-checked scenario (threshold-2 step, delegated
    step, MATCH rule, inspection) with the summary the model returns -/
theorem c13_specification_accepts_the_scenario :
    accepts Scenario.env 2 [] Scenario.block [0] Scenario.dir "final".toList = some Scenario.summaryLink := by
  rw [← okPart_verify_eq_accepts Scenario.env Scenario.idOrd Scenario.idOrd_valid, Scenario.verifies_id]
  rfl

/-- ... and rejects its failing variants -/
theorem c13_specification_rejects_dissent :
    accepts Scenario.env 2 [] Scenario.block [0] Scenario.dissentDir "final".toList = none := by
  rw [← okPart_verify_eq_accepts Scenario.env Scenario.idOrd Scenario.idOrd_valid, okPart_verify_eq_verifyC,
    Scenario.dissent_fails]

end InToto.VerifySpec

namespace InToto.VerifySpec
open InToto InToto.Verify InToto.Rules InToto.Threshold

variable {K : Type}

/-! ### the pipeline properties as corollaries of the refinement

Each reads its clause off `Accepted`; the per-property files prove the same facts directly from the
model, with more detail (which file, which signature). -/

/-- C06 from the specification: an accepted layout has not expired -/
theorem c06_accepted_layout_is_unexpired {env : Env K} {ord : Ord} (hord : ord.Valid)
    {fuel : Nat} {path : List Str} {b : Block K} {keys : List K} {dir : Dir K} {name : Str} {out : Link}
    (h : (verify env ord (fuel + 1) path b keys dir name).1 = .ok out) :
    ∃ L, b.signed = .layout L ∧ ¬ L.expires < env.now path := by
  obtain ⟨L, _, _, _, hb, _, hexp, _⟩ := ((c02_success_iff_every_clause_holds env ord hord fuel path b keys dir name out).mp h).clauses
  exact ⟨L, hb, hexp⟩

/-- C07 from the specification: the links standing for the counted evidence of a multi-party step agree
    pairwise -/
theorem c07_accepted_multi_party_links_agree {env : Env K} {ord : Ord} (hord : ord.Valid)
    {fuel : Nat} {path : List Str} {b : Block K} {keys : List K} {dir : Dir K} {name : Str} {out : Link}
    (h : (verify env ord (fuel + 1) path b keys dir name).1 = .ok out) :
    ∃ (L : Layout K) (links : List (Step × List (Str × Link))), b.signed = .layout L ∧
      allSome (stepLinks (accepts env fuel) env path L dir) L.steps = some links ∧
      ∀ v ∈ links, 2 ≤ v.1.threshold → ∀ e ∈ v.2, ∀ e' ∈ v.2, agree e.2 e'.2 = true := by
  obtain ⟨L, links, _, _, hb, _, _, _, _, hl, hag, _⟩ :=
    ((c02_success_iff_every_clause_holds env ord hord fuel path b keys dir name out).mp h).clauses
  refine ⟨L, links, hb, hl, ?_⟩
  intro v hv ht e he e' he'
  have := List.all_eq_true.mp hag v hv
  unfold agreeing at this
  have hnt : ¬ v.1.threshold ≤ 1 := by omega
  simp only [hnt, decide_false, Bool.false_or, List.all_eq_true] at this
  exact this e he e' he'

/-- C08 from the specification: success means every inspection's command ran and exited with status 0 -/
theorem c08_accepted_inspections_exited_with_zero {env : Env K} {ord : Ord} (hord : ord.Valid)
    {fuel : Nat} {path : List Str} {b : Block K} {keys : List K} {dir : Dir K} {name : Str} {out : Link}
    (h : (verify env ord (fuel + 1) path b keys dir name).1 = .ok out) :
    ∃ L, b.signed = .layout L ∧ ∀ i ∈ L.inspect, ∃ l, env.run path i = some (0, l) := by
  obtain ⟨L, _, _, insp, hb, _, _, _, _, _, _, _, _, hi, _⟩ :=
    ((c02_success_iff_every_clause_holds env ord hord fuel path b keys dir name out).mp h).clauses
  refine ⟨L, hb, ?_⟩
  intro i hi'
  have := (allSome_eq_some hi).2 i hi'
  unfold inspected at this
  cases hr : env.run path i with
  | none => rw [hr] at this; cases this
  | some r =>
    obtain ⟨status, l⟩ := r
    rw [hr] at this
    simp only at this
    by_cases h0 : status = 0
    · subst h0; exact ⟨l, rfl⟩
    · simp [h0] at this

/-- C15 from the specification: a delegated layout among the counted evidence stands for the summary of
    its own acceptance - one level down, with the one key it is filed under, against the
    sub-directory named after the step and that key's id prefix, under the step's name -/
theorem c15_accepted_sublayouts_are_accepted {env : Env K} {ord : Ord} (hord : ord.Valid)
    {fuel : Nat} {path : List Str} {b : Block K} {keys : List K} {dir : Dir K} {name : Str} {out : Link}
    (h : (verify env ord (fuel + 1) path b keys dir name).1 = .ok out) :
    ∃ L, b.signed = .layout L ∧ ∀ st ∈ L.steps, ∀ e ∈ (evidence dir st.name).filter (counts env L st),
      ∀ L', e.2.signed = .layout L' →
        ∃ k l, lookup e.1 L.keys = some k ∧
          accepts env fuel (path ++ [st.name ++ '.' :: prefix8 e.1]) e.2 [k]
            (subDirOf dir (st.name ++ '.' :: prefix8 e.1)) st.name = some l := by
  obtain ⟨L, links, _, _, hb, _, _, _, _, hl, _⟩ :=
    ((c02_success_iff_every_clause_holds env ord hord fuel path b keys dir name out).mp h).clauses
  refine ⟨L, hb, ?_⟩
  intro st hst e he L' hL'
  have hs := (allSome_eq_some hl).2 st hst
  unfold stepLinks at hs
  simp only at hs
  split at hs
  · cases hs
  · cases ha : allSome (standsFor (accepts env fuel) path L dir st.name) ((evidence dir st.name).filter (counts env L st)) with
    | none => rw [ha] at hs; cases hs
    | some ls =>
      have := (allSome_eq_some ha).2 e he
      unfold standsFor at this
      rw [hL'] at this
      simp only at this
      cases hk : lookup e.1 L.keys with
      | none => rw [hk] at this; cases this
      | some k =>
        rw [hk] at this
        simp only at this
        cases hacc : accepts env fuel (path ++ [st.name ++ '.' :: prefix8 e.1]) e.2 [k]
            (subDirOf dir (st.name ++ '.' :: prefix8 e.1)) st.name with
        | none => rw [hacc] at this; cases this
        | some l => exact ⟨k, l, rfl, hacc⟩

end InToto.VerifySpec

namespace InToto.VerifySpec
open InToto InToto.Verify

variable {K : Type}

/-- The specification's depth bound is no limit either: beyond the depth of the link directory plus one
    it accepts the same inputs with the same summary for every bound (from the refinement theorem and
    `verify_fuel_enough`). -/
theorem c14_specification_depth_bound_is_no_limit (env : Env K) (path : List Str) (b : Block K) (keys : List K)
    (dir : Dir K) (name : Str) (fuel : Nat) (hf : dir.depth + 1 ≤ fuel) (extra : Nat) :
    accepts env (fuel + extra) path b keys dir name = accepts env fuel path b keys dir name := by
  rw [← okPart_verify_eq_accepts env idO idO_valid, ← okPart_verify_eq_accepts env idO idO_valid,
    verify_fuel_enough env idO idO_valid path b keys dir name fuel hf extra]

end InToto.VerifySpec

namespace InToto.VerifySpec
open InToto InToto.Verify InToto.Rules InToto.Threshold

variable {K : Type}

/-! ### C03 inside the pipeline: which links the rules of an inspection are decided against -/

/-- C03 (the rules of inspections, inside a whole verification): when verification succeeds, the rules of
    every inspection held on ONE table, and that table holds - next to the steps' representatives - the
    link of every inspection of the layout: of one listed later as of one listed earlier.  A MATCH rule
    of an inspection may therefore refer to any of them. -/
theorem c03_inspection_rules_are_decided_over_all_inspection_links {env : Env K} {ord : Ord} (hord : ord.Valid)
    {fuel : Nat} {path : List Str} {b : Block K} {keys : List K} {dir : Dir K} {name : Str} {out : Link}
    (h : (verify env ord (fuel + 1) path b keys dir name).1 = .ok out) :
    ∃ (L : Layout K) (table : List (Str × Link)), b.signed = .layout L ∧
      rulesHold table (L.inspect.map inspItem) = true ∧
      ((L.inspect.map Insp.name).Nodup →
        ∀ i ∈ L.inspect, ∃ l, env.run path i = some (0, l) ∧ lookup i.name table = some l) := by
  obtain ⟨L, _, reps, insp, hb, _, _, _, _, _, _, _, _, hi, hr, _⟩ :=
    ((c02_success_iff_every_clause_holds env ord hord fuel path b keys dir name out).mp h).clauses
  exact ⟨L, insp.reverse ++ reps, hb, hr, fun hnd => inspection_links_all_in_table hi hnd⟩

/-- C03 / C13 (the inspections are a set as far as the decision goes): two signed layouts that differ in
    nothing but the order in which they list their (distinctly named) inspections - and that the owners
    have signed alike - are accepted alike, with the same summary, under every iteration order. -/
theorem c03_decision_does_not_depend_on_the_order_inspections_are_listed (env : Env K) (ord ord' : Ord)
    (hord : ord.Valid) (hord' : ord'.Valid) (fuel : Nat) (path : List Str) (b b' : Block K) (L : Layout K)
    (insps' : List Insp) (keys : List K) (dir : Dir K) (name : Str)
    (hb : b.signed = .layout L) (hb' : b'.signed = .layout { L with inspect := insps' })
    (hp : L.inspect.Perm insps') (hnd : (L.inspect.map Insp.name).Nodup)
    (hsig : ownersSigned env b keys = ownersSigned env b' keys) (out : Link) :
    (verify env ord (fuel + 1) path b keys dir name).1 = .ok out ↔
      (verify env ord' (fuel + 1) path b' keys dir name).1 = .ok out := by
  rw [c02_success_iff_every_clause_holds env ord hord, c02_success_iff_every_clause_holds env ord' hord',
    accepted_iff_inspectionsHold, accepted_iff_inspectionsHold]
  constructor
  · rintro ⟨L0, links, reps, h1, h2, h3, h4, h5, h6, h7, h8, h9, h10⟩
    rw [hb] at h1; cases h1
    exact ⟨{ L with inspect := insps' }, links, reps, hb', hsig ▸ h2, h3, h4, h5, h6, h7, h8, h9,
      (inspectionsHold_perm (L := L) hp hnd).mp h10⟩
  · rintro ⟨L0, links, reps, h1, h2, h3, h4, h5, h6, h7, h8, h9, h10⟩
    rw [hb'] at h1; cases h1
    exact ⟨L, links, reps, hb, hsig.symm ▸ h2, h3, h4, h5, h6, h7, h8, h9,
      (inspectionsHold_perm (L := L) hp hnd).mpr h10⟩

end InToto.VerifySpec

namespace InToto.VerifySpec
open InToto InToto.Verify

/-- non-vacuity of the two C03 pipeline theorems: a layout whose first inspection refers, with a decisive
    MATCH rule, to the inspection listed after it is accepted (kernel-checked), the same layout with the
    two inspections the other way round is accepted with the same summary - here obtained from the theorem,
    not by evaluation - and with the other inspection absent it is refused -/
theorem c03_match_from_a_later_inspection_is_honoured :
    (verify Scenario.env Scenario.idOrd 2 [] Scenario.blockLater [0] Scenario.dir "final".toList).1 = .ok Scenario.summaryLink ∧
    (verify Scenario.env Scenario.revOrd 2 [] Scenario.blockEarlier [0] Scenario.dir "final".toList).1 = .ok Scenario.summaryLink ∧
    accepts Scenario.env 2 [] Scenario.blockAlone [0] Scenario.dir "final".toList = none := by
  refine ⟨Scenario.verifies_match_from_later_inspection, ?_, ?_⟩
  · refine (c03_decision_does_not_depend_on_the_order_inspections_are_listed Scenario.env Scenario.idOrd Scenario.revOrd
      Scenario.idOrd_valid Scenario.revOrd_valid 1 [] Scenario.blockLater Scenario.blockEarlier Scenario.layoutLater
      Scenario.layoutEarlier.inspect [0] Scenario.dir "final".toList rfl rfl ?_ (by decide) (by decide) _).mp
      Scenario.verifies_match_from_later_inspection
    exact List.perm_append_comm (l₁ := [Scenario.checkInsp]) (l₂ := Scenario.layout.inspect)
  · rw [← okPart_verify_eq_accepts Scenario.env Scenario.idOrd Scenario.idOrd_valid, okPart_verify_eq_verifyC,
      Scenario.fails_without_the_other_inspection]

end InToto.VerifySpec

namespace InToto.VerifySpec
open InToto InToto.Verify

variable {K : Type}

/-! ### C06 over all moments: the verdict as a function of the clock -/

/-- C06 (every verification time): what verification accepts at some moment it accepts, with the same
    summary, at every earlier moment - at the top and in every delegated layout, whatever the iteration
    orders.  The moment enters through the comparison with the expiry dates and through nothing else. -/
theorem c06_accepted_at_every_earlier_moment (env : Env K) (ord ord' : Ord) (hord : ord.Valid) (hord' : ord'.Valid)
    (now' : List Str → Int) (hn : ∀ p, now' p ≤ env.now p)
    (fuel : Nat) (path : List Str) (b : Block K) (keys : List K) (dir : Dir K) (name : Str) (out : Link)
    (h : (verify env ord fuel path b keys dir name).1 = .ok out) :
    (verify (atTime env now') ord' fuel path b keys dir name).1 = .ok out := by
  rw [← okPart_eq_some, okPart_verify_eq_accepts env ord hord] at h
  rw [← okPart_eq_some, okPart_verify_eq_accepts (atTime env now') ord' hord']
  exact accepts_earlier env now' hn fuel path b keys dir name out h

/-- C06: a layout that has expired is refused from then on - at the moment it is found expired and at
    every later one, whatever was answered about the same documents before -/
theorem c06_refused_at_every_later_moment (env : Env K) (ord : Ord) (hord : ord.Valid)
    (now' : List Str → Int) (fuel : Nat) (path : List Str) (b : Block K) (keys : List K) (dir : Dir K) (name : Str)
    (L : Layout K) (hb : b.signed = .layout L) (hexp : L.expires < env.now path) (hn : env.now path ≤ now' path)
    (out : Link) : (verify (atTime env now') ord fuel path b keys dir name).1 ≠ .ok out := by
  intro h
  rw [← okPart_eq_some, okPart_verify_eq_accepts (atTime env now') ord hord,
    refused_once_expired env now' fuel path b keys dir name L hb hexp hn] at h
  cases h

/-- non-vacuity: the kernel-checked scenario (clock 100, expiry 200, a delegated layout expiring at 150) is
    accepted at moment 0 by the theorem, and refused at 201 and ever after -/
theorem c06_scenario_over_time :
    (verify (atTime Scenario.env fun _ => 0) Scenario.revOrd 2 [] Scenario.block [0] Scenario.dir "final".toList).1
        = .ok Scenario.summaryLink ∧
      ∀ t : Int, 201 ≤ t → ∀ out,
        (verify (atTime Scenario.env fun _ => t) Scenario.idOrd 2 [] Scenario.block [0] Scenario.dir "final".toList).1 ≠ .ok out := by
  refine ⟨c06_accepted_at_every_earlier_moment Scenario.env Scenario.idOrd Scenario.revOrd Scenario.idOrd_valid
      Scenario.revOrd_valid (fun _ => 0) (fun _ => (by decide : (0 : Int) ≤ 100)) 2 [] Scenario.block [0] Scenario.dir _ _ Scenario.verifies_id, ?_⟩
  intro t ht out
  exact c06_refused_at_every_later_moment (atTime Scenario.env fun _ => 201) Scenario.idOrd Scenario.idOrd_valid (fun _ => t) 2 []
    Scenario.block [0] Scenario.dir _ Scenario.layout rfl (by decide) ht out

end InToto.VerifySpec

namespace InToto.VerifySpec
open InToto InToto.Verify

variable {K : Type}

/-! ### C02 / C14 over all directory contents: only the files the layout names are looked at -/

/-- C02 (every population of the link directory): a file that is named like no evidence of any step of
    the layout - whatever it holds, readable or not - may be inserted anywhere into the listing of the
    link directory: success and summary stay what they were, under any iteration orders. -/
theorem c02_files_named_like_no_evidence_do_not_matter (env : Env K) (ord ord' : Ord) (hord : ord.Valid)
    (hord' : ord'.Valid) (fuel : Nat) (path : List Str) (b : Block K) (keys : List K)
    (pre post : List (Str × FileC K)) (subs : List (Str × Dir K)) (f : Str × FileC K) (name : Str)
    (hf : ∀ L, b.signed = .layout L → ∀ st ∈ L.steps, matchesStepFile st.name f.1 = false) :
    okPart (verify env ord (fuel + 1) path b keys (Dir.mk (pre ++ f :: post) subs) name).1 =
      okPart (verify env ord' (fuel + 1) path b keys (Dir.mk (pre ++ post) subs) name).1 := by
  rw [okPart_verify_eq_accepts env ord hord, okPart_verify_eq_accepts env ord' hord']
  exact acceptsStep_insert_other (accepts env fuel) env path b keys pre post subs f name hf

/-- non-vacuity: the kernel-checked scenario with an unreadable `README` and a stray, unreadable
    `build.link` put between its link files verifies as before -/
theorem c02_scenario_with_stray_files :
    okPart (verify Scenario.env Scenario.revOrd 2 [] Scenario.block [0]
      (Dir.mk (Scenario.dir.files.take 1 ++ ("README".toList, FileC.unreadable) ::
        (("build.link".toList, FileC.unreadable) :: Scenario.dir.files.drop 1)) Scenario.dir.subs) "final".toList).1
      = some Scenario.summaryLink := by
  rw [c02_files_named_like_no_evidence_do_not_matter Scenario.env Scenario.revOrd Scenario.idOrd Scenario.revOrd_valid
      Scenario.idOrd_valid 1 [] Scenario.block [0] (Scenario.dir.files.take 1) _ Scenario.dir.subs _ _
      (by intro L hL st hst; cases hL; revert st hst; decide)]
  rw [c02_files_named_like_no_evidence_do_not_matter Scenario.env Scenario.idOrd Scenario.idOrd Scenario.idOrd_valid
      Scenario.idOrd_valid 1 [] Scenario.block [0] (Scenario.dir.files.take 1) (Scenario.dir.files.drop 1) Scenario.dir.subs
      ("build.link".toList, FileC.unreadable) "final".toList
      (by intro L hL st hst; cases hL; revert st hst; decide)]
  have e : Dir.mk (Scenario.dir.files.take 1 ++ Scenario.dir.files.drop 1) Scenario.dir.subs = Scenario.dir := rfl
  rw [e]
  exact okPart_eq_some.mpr Scenario.verifies_id

end InToto.VerifySpec

namespace InToto.VerifySpec
open InToto InToto.Verify

variable {K : Type}

/-! ### C01 / C13 over all key sets and signature lists: clause 1 reads the caller's keys as a set and the
    signature list under their ids only -/

/-- C13 / C01: the order in which the trusted keys are supplied does not matter (they reach the code in a
    hash map) -/
theorem c13_order_of_the_supplied_keys_does_not_matter (env : Env K) (ord ord' : Ord) (hord : ord.Valid)
    (hord' : ord'.Valid) (fuel : Nat) (path : List Str) (b : Block K) (keys keys' : List K) (hp : keys.Perm keys')
    (dir : Dir K) (name : Str) :
    okPart (verify env ord (fuel + 1) path b keys dir name).1 = okPart (verify env ord' (fuel + 1) path b keys' dir name).1 := by
  rw [okPart_verify_eq_accepts env ord hord, okPart_verify_eq_accepts env ord' hord']
  exact (acceptsStep_congr_owners (accepts env fuel) env path b b keys keys' dir name rfl
    (ownersSigned_perm env b hp).symm).symm

/-- C01: a signature entry under the id of a key that was not supplied - whoever made it, valid or not,
    wherever it stands in the layout's signature list - neither helps nor hurts -/
theorem c01_signatures_of_keys_not_supplied_do_not_matter (env : Env K) (ord ord' : Ord) (hord : ord.Valid)
    (hord' : ord'.Valid) (fuel : Nat) (path : List Str) (content : Meta K) (pre post : List Sig) (s : Sig)
    (keys : List K) (hs : ∀ k ∈ keys, env.kidOf k ≠ s.kid) (dir : Dir K) (name : Str) :
    okPart (verify env ord (fuel + 1) path { sigs := pre ++ s :: post, signed := content } keys dir name).1 =
      okPart (verify env ord' (fuel + 1) path { sigs := pre ++ post, signed := content } keys dir name).1 := by
  rw [okPart_verify_eq_accepts env ord hord, okPart_verify_eq_accepts env ord' hord']
  exact acceptsStep_congr_owners (accepts env fuel) env path _ _ keys keys dir name rfl
    (ownersSigned_insert_foreign env content pre post s keys hs)

/-- non-vacuity: the scenario's layout with a second signature entry, under functionary B's id, put in front
    of the owner's: accepted with the same summary -/
theorem c01_scenario_with_a_foreign_signature :
    okPart (verify Scenario.env Scenario.revOrd 2 [] (Block.mk ([] ++ Sig.mk Scenario.kB [9] :: Scenario.block.sigs) Scenario.block.signed) [0] Scenario.dir "final".toList).1 = some Scenario.summaryLink := by
  rw [c01_signatures_of_keys_not_supplied_do_not_matter Scenario.env Scenario.revOrd Scenario.idOrd Scenario.revOrd_valid
    Scenario.idOrd_valid 1 [] Scenario.block.signed [] Scenario.block.sigs _ [0] (by decide) Scenario.dir _]
  exact okPart_eq_some.mpr Scenario.verifies_id

end InToto.VerifySpec

namespace InToto.VerifySpec
open InToto InToto.Verify

variable {K : Type}

/-- C15 / C02 (every population of the link directory): a sub-directory whose name is not
    `<step>.<8 characters>` for a step of the layout - whatever it holds - may be inserted anywhere among the
    sub-directories: success and summary stay what they were.  Delegated evidence is looked for in the one
    sub-directory named after its step and key, and nowhere else. -/
theorem c15_subdirectories_named_like_no_delegation_do_not_matter (env : Env K) (ord ord' : Ord) (hord : ord.Valid)
    (hord' : ord'.Valid) (fuel : Nat) (path : List Str) (b : Block K) (keys : List K)
    (files : List (Str × FileC K)) (pre post : List (Str × Dir K)) (d : Str × Dir K) (name : Str)
    (hd : ∀ L, b.signed = .layout L → ∀ st ∈ L.steps, ∀ kid : Str, d.1 ≠ st.name ++ '.' :: prefix8 kid) :
    okPart (verify env ord (fuel + 1) path b keys (Dir.mk files (pre ++ d :: post)) name).1 =
      okPart (verify env ord' (fuel + 1) path b keys (Dir.mk files (pre ++ post)) name).1 := by
  rw [okPart_verify_eq_accepts env ord hord, okPart_verify_eq_accepts env ord' hord']
  exact acceptsStep_insert_other_subdir (accepts env fuel) env path b keys files pre post d name hd

/-- non-vacuity: the scenario with a stray sub-directory `cache` (holding a copy of the delegated evidence) in
    front of the real one verifies as before -/
theorem c15_scenario_with_a_stray_subdirectory :
    okPart (verify Scenario.env Scenario.revOrd 2 [] Scenario.block [0]
      (Dir.mk Scenario.dir.files ([] ++ ("cache".toList, Scenario.subDir) :: Scenario.dir.subs)) "final".toList).1
      = some Scenario.summaryLink := by
  rw [c15_subdirectories_named_like_no_delegation_do_not_matter Scenario.env Scenario.revOrd Scenario.idOrd
    Scenario.revOrd_valid Scenario.idOrd_valid 1 [] Scenario.block [0] Scenario.dir.files [] Scenario.dir.subs
    ("cache".toList, Scenario.subDir) "final".toList ?hd]
  case hd =>
    intro L hL st hst kid h
    cases hL
    have h0 := congrArg List.head? h
    simp only [Scenario.layout, List.mem_cons, List.not_mem_nil, or_false] at hst
    have hc : List.head? "cache".toList = some 'c' := by rfl
    rcases hst with rfl | rfl
    · have h0' : List.head? "cache".toList = List.head? ("build".toList ++ '.' :: prefix8 kid) := h0
      rw [hc, show List.head? ("build".toList ++ '.' :: prefix8 kid) = some 'b' from rfl] at h0'
      exact absurd h0' (by decide)
    · have h0' : List.head? "cache".toList = List.head? ("pkg".toList ++ '.' :: prefix8 kid) := h0
      rw [hc, show List.head? ("pkg".toList ++ '.' :: prefix8 kid) = some 'p' from rfl] at h0'
      exact absurd h0' (by decide)
  have e : Dir.mk Scenario.dir.files ([] ++ Scenario.dir.subs) = Scenario.dir := rfl
  rw [e]
  exact okPart_eq_some.mpr Scenario.verifies_id

end InToto.VerifySpec

namespace InToto.VerifySpec
open InToto InToto.Verify

variable {K : Type}

/-- C02 (evidence of other keys never counts - and never hurts): a readable file named like evidence of a
    step but filed under an id the step does not list (or under no id at all: none of its signatures has
    the prefix in its name), inserted anywhere into the listing of the link directory - whatever it says,
    however it is signed - changes neither verdict nor summary. -/
theorem c02_evidence_of_unlisted_keys_neither_helps_nor_hurts (env : Env K) (ord ord' : Ord) (hord : ord.Valid)
    (hord' : ord'.Valid) (fuel : Nat) (path : List Str) (b : Block K) (keys : List K)
    (pre post : List (Str × FileC K)) (subs : List (Str × Dir K)) (n : Str) (blk : Block K) (name : Str)
    (hf : ∀ L, b.signed = .layout L → ∀ st ∈ L.steps, ∀ e,
      filedUnder st.name (n, FileC.block blk) = some e → e.1 ∉ st.pubkeys) :
    okPart (verify env ord (fuel + 1) path b keys (Dir.mk (pre ++ (n, FileC.block blk) :: post) subs) name).1 =
      okPart (verify env ord' (fuel + 1) path b keys (Dir.mk (pre ++ post) subs) name).1 := by
  rw [okPart_verify_eq_accepts env ord hord, okPart_verify_eq_accepts env ord' hord']
  exact acceptsStep_insert_unlisted (accepts env fuel) env path b keys pre post subs n blk name hf

/-- a dissenting `build` link, validly signed by the owner's key - which the step does not list -/
def strayBlock : Block Nat := { sigs := [{ kid := Scenario.kO, val := [0] }], signed := .link Scenario.dissentLink }

/-- non-vacuity: the scenario with that third `build` link between its link files verifies as before -/
theorem c02_scenario_with_a_link_of_an_unlisted_key :
    okPart (verify Scenario.env Scenario.revOrd 2 [] Scenario.block [0]
      (Dir.mk (Scenario.dir.files.take 1 ++ ("build.oooooooo.link".toList, FileC.block strayBlock) ::
        Scenario.dir.files.drop 1) Scenario.dir.subs) "final".toList).1 = some Scenario.summaryLink := by
  rw [c02_evidence_of_unlisted_keys_neither_helps_nor_hurts Scenario.env Scenario.revOrd Scenario.idOrd
    Scenario.revOrd_valid Scenario.idOrd_valid 1 [] Scenario.block [0] (Scenario.dir.files.take 1) (Scenario.dir.files.drop 1)
    Scenario.dir.subs "build.oooooooo.link".toList strayBlock "final".toList ?hf]
  case hf =>
    intro L hL st hst e he
    cases hL
    simp only [Scenario.layout, List.mem_cons, List.not_mem_nil, or_false] at hst
    rcases hst with rfl | rfl
    · have hc : filedUnder "build".toList ("build.oooooooo.link".toList, FileC.block strayBlock) =
          some (Scenario.kO, strayBlock) := by rfl
      have he' : filedUnder "build".toList ("build.oooooooo.link".toList, FileC.block strayBlock) = some e := he
      rw [hc] at he'
      cases he'
      decide
    · have hc : filedUnder "pkg".toList ("build.oooooooo.link".toList, FileC.block strayBlock) = none := by rfl
      have he' : filedUnder "pkg".toList ("build.oooooooo.link".toList, FileC.block strayBlock) = some e := he
      rw [hc] at he'
      cases he'
  have e : Dir.mk (Scenario.dir.files.take 1 ++ Scenario.dir.files.drop 1) Scenario.dir.subs = Scenario.dir := rfl
  rw [e]
  exact okPart_eq_some.mpr Scenario.verifies_id

end InToto.VerifySpec
