import InTotoModel.Lemmas.JsonCanon
/-
  C11 — Signed bytes and key-id preimages match the in-toto reference encoding.

  `signedText`  models what `Metablock::new`, `Metablock::verify`, `MetablockBuilder::sign` and
                `calculate_key_id` feed to the signature / hash primitive
                (`to_signable_text(canonicalize(to_value(x)))`).
  `refCanon`    is the reference (OLPC) canonical JSON.
  The key-id preimage is `signedText` of the key description's JSON (`shim_public_key`), so the
  same theorem covers it.
-/
namespace InToto.Json

/-- The bytes the library signs, verifies and hashes are the reference canonical JSON, for every
    JSON value (in particular for every string content). -/
theorem c11_signed_text_is_reference (v : JV) : signedText v = refCanon v := by
  unfold signedText refCanon canon
  by_cases h : hasNonInt v = true
  · simp [h]
  · simp [h, toSignable_write]

/-- The reference text is valid reference encoding: the reference reader returns the value. -/
theorem c11_reference_parses_back {v : JV} {t : Str} (h : signedText v = .ok t) :
    parseRef t = some (norm v) := by
  rw [c11_signed_text_is_reference] at h
  unfold refCanon at h
  split at h
  · cases h
  · rename_i hn
    cases h
    exact parseRef_refWrite (norm v) (hasNonInt_norm v (by simpa using hn))

/-- Recorded witness of the defect that was repaired (`fix:` commit a4a4370): with the former
    derivation (`replace("\\n", "\n")`) a string containing TAB was signed over bytes that differ
    from the reference encoding. -/
theorem c11_former_derivation_differs :
    unescNl (write (.str ['a', '\t', 'b'])) ≠ refWrite (.str ['a', '\t', 'b']) := by
  decide

/- Non-vacuity / concrete instance: a string with TAB, CR, a control character, backslash+n and LF. -/
example : signedText (.str ['\t', '\r', Char.ofNat 1, '\\', 'n', '\n', '"'])
    = .ok ['"', '\t', '\r', Char.ofNat 1, '\\', '\\', 'n', '\n', '\\', '"', '"'] := by
  rw [c11_signed_text_is_reference]; decide

end InToto.Json
