import InTotoModel.Lemmas.Verify
import InTotoModel.Generated.Pipeline
/-
  C15 — Delegated sub-layouts are verified as strictly as the top-level layout.

  Model: `InToto.Verify.verify` (recursion of `verify_sublayouts` into `in_toto_verify`).
-/
namespace InToto.Verify
open InToto.Threshold

variable {K : Type}

/-- Whenever verification succeeds, every piece of evidence that counted for a step and is a
    sub-layout (a) is listed under a key authorized for the step and defined in the key table,
    (b) carries a valid signature of exactly that key over the sub-layout, and (c) has itself passed
    the *complete* verification routine — with that single key as the trusted key, with the step's
    name as requested name, against the sub-directory `<step>.<first 8 characters of the key id>`
    of the current link directory.  Because (c) is again a successful `verify`, C01, C02, C06, C07 …
    apply to the sub-layout (and, recursively, to its own sub-layouts). -/
theorem c15_sublayout_fully_verified {env : Env K} {ord : Ord} (hord : ord.Valid)
    {fuel : Nat} {path : List Str} {b : Block K} {keys : List K} {dir : Dir K} {name : Str} {s : Link}
    (h : (verify env ord (fuel + 1) path b keys dir name).1 = .ok s) :
    ∃ p : Passed env ord fuel path b keys dir name s,
      ∀ v ∈ p.verified, ∀ e ∈ v.2, ∀ L', e.2.signed = .layout L' →
        (∃ st ∈ p.L.steps, v.1 = st.name ∧ e.1 ∈ st.pubkeys) ∧
        ∃ k, lookup e.1 p.L.keys = some k ∧
          (∃ σ ∈ e.2.sigs, σ.kid = env.kidOf k ∧ env.valid k e.2.signed σ.val = true) ∧
          ∃ s', (verify env ord fuel (path ++ [subName v.1 e.1]) e.2 [k]
                  (subDirOf dir (subName v.1 e.1)) v.1).1 = .ok s' := by
  obtain ⟨p⟩ := verify_ok_inv h
  refine ⟨p, ?_⟩
  intro v hv e he L' hL'
  have ⟨hv1, _, _, _⟩ := verifyThresholds_spec env ord p.L p.loaded p.L.steps [] p.hthr
  rcases hv1 v hv with h0 | ⟨st, hst, hname, hgood⟩
  · simp at h0
  · rw [hgood] at he
    rcases (goodLinks_spec env ord p.L st _ []).1 e he with h0 | ⟨_, hpk, k, m, hk, hvb⟩
    · simp at h0
    · refine ⟨⟨st, hst, hname, hpk⟩, k, hk, ?_, ?_⟩
      · have ⟨_, hs⟩ := verifyBlockK_ok hvb
        have ⟨_, ids, _, hlen', hids⟩ := c04_sound env.kidOf _ (ord.perm 0) (hord 0 _) e.2.sigs 1 [k] hs
        cases ids with
        | nil => simp at hlen'
        | cons i _ =>
          obtain ⟨k', hk', hkid, σ, hσ, hσk, hval⟩ := hids i (by simp)
          simp only [List.mem_singleton] at hk'
          subst hk'
          exact ⟨σ, hσ, by rw [hσk, hkid], hval⟩
      · have hsub := subLayouts_spec _ _ _ p.hsub v ((hord 2 _ _).mem_iff.mpr hv) e
          ((hord 3 _ _).mem_iff.mpr (by rw [hgood]; exact he))
        simp only [SubOk, hL'] at hsub
        obtain ⟨k2, s', hk2, hver⟩ := hsub
        rw [hk] at hk2
        cases hk2
        exact ⟨s', hver⟩

/-- The summary returned by any successful verification: the requested name; the materials of the
    first step's representative link and the products, command and byproducts (`extra`) of the last
    step's; for a layout without steps an empty link under the requested name. -/
theorem c15_summary {env : Env K} {ord : Ord}
    {fuel : Nat} {path : List Str} {b : Block K} {keys : List K} {dir : Dir K} {name : Str} {s : Link}
    (h : (verify env ord (fuel + 1) path b keys dir name).1 = .ok s) :
    ∃ p : Passed env ord fuel path b keys dir name s,
      s.name = name ∧
      (p.L.steps = [] → s = emptyLink name) ∧
      (∀ first last, p.L.steps.head? = some first → p.L.steps.getLast? = some last →
        ∃ lf ll, lookup first.name (extend p.reduced p.inspLinks) = some lf ∧
                 lookup last.name (extend p.reduced p.inspLinks) = some ll ∧
                 s.arts.materials = lf.arts.materials ∧ s.arts.products = ll.arts.products ∧
                 s.extra = ll.extra) := by
  obtain ⟨p⟩ := verify_ok_inv h
  refine ⟨p, ?_⟩
  have hs := p.hsum
  unfold summary at hs
  split at hs
  · rename_i first last hf hl
    split at hs
    · rename_i lf ll hlf hll
      cases hs
      refine ⟨rfl, ?_, ?_⟩
      · intro e; rw [e] at hf; simp at hf
      · intro f l hf' hl'
        rw [hf] at hf'; rw [hl] at hl'
        cases hf'; cases hl'
        exact ⟨lf, ll, hlf, hll, rfl, rfl, rfl⟩
    · cases hs
  · rename_i hno
    cases hs
    refine ⟨rfl, fun _ => rfl, ?_⟩
    intro f l hf hl
    exfalso
    exact hno f l hf hl

/-- **Tie to the source.**  Read from src/verifylib.rs on every run: `verify_sublayouts` verifies a
    delegated layout by calling the full entry point `in_toto_verify` (and no other function of the
    pipeline) and hands its failure on, and `in_toto_verify` has no early exit besides the "not a layout" rejection - so a
    sub-layout goes through every stage the top-level layout goes through, which is what the
    recursion of the model `verify` says. -/
theorem c15_source_sublayouts_go_through_the_full_entry_point :
    Generated.sublayoutCalls = ["in_toto_verify"] ∧ Generated.pipelineReturns.length = 1 ∧
    Generated.pipelineStages.all (fun s => s.depth == 0) = true ∧
    Generated.sublayoutStages.all (fun s => s.propagates) = true := by decide

end InToto.Verify
