import InTotoModel.Lemmas.JsonCanon
import InTotoModel.Lemmas.JsonText
/-
  C10 — Canonical JSON is deterministic, order-insensitive, loss-free and integer-only.

  Model: `InToto.Json.canon` (= `Json::canonicalize`, src/interchange/cjson/mod.rs) over `JV`
  (= `serde_json::Value`).  `parseJ` is the strict JSON reader of Model/JsonParse.lean.
  "Whitespace or escape spelling of the source text": `Model/JsonText.lean` is a model of
  serde_json's text reader (lexer + token parser; tied to `serde_json::from_str` by the `readtext`
  correspondence on spelled, edited and numeral texts); the theorems at the end of this file say
  that every spelling of a value - white space anywhere between tokens, every string character raw
  or in any of its escape forms, members in any order - is read as that value and canonicalizes to
  the same bytes.
-/
namespace InToto.Json

/-- Equality of JSON values up to the order of object members (at any depth). -/
inductive Equiv : JV → JV → Prop where
  | refl (v : JV) : Equiv v v
  | trans {a b c : JV} : Equiv a b → Equiv b c → Equiv a c
  | arrCons {x y : JV} {xs ys : List JV} :
      Equiv x y → Equiv (.arr xs) (.arr ys) → Equiv (.arr (x :: xs)) (.arr (y :: ys))
  | objCons (k : Str) {v w : JV} {r r' : List (Str × JV)} :
      Equiv v w → Equiv (.obj r) (.obj r') → Equiv (.obj ((k, v) :: r)) (.obj ((k, w) :: r'))
  | objPerm {kvs kvs' : List (Str × JV)} :
      kvs.Perm kvs' → (kvs.map Prod.fst).Nodup → Equiv (.obj kvs) (.obj kvs')

theorem hasNonIntKvs_iff (kvs : List (Str × JV)) :
    hasNonIntKvs kvs = true ↔ ∃ p ∈ kvs, hasNonInt p.2 = true := by
  induction kvs with
  | nil => simp [hasNonIntKvs]
  | cons p r ih => obtain ⟨k, v⟩ := p; simp [hasNonIntKvs, ih]

theorem hasNonIntKvs_perm {kvs kvs' : List (Str × JV)} (hp : kvs.Perm kvs') :
    hasNonIntKvs kvs = hasNonIntKvs kvs' := by
  have h : hasNonIntKvs kvs = true ↔ hasNonIntKvs kvs' = true := by
    rw [hasNonIntKvs_iff, hasNonIntKvs_iff]
    constructor
    · rintro ⟨p, hm, hp'⟩; exact ⟨p, hp.mem_iff.mp hm, hp'⟩
    · rintro ⟨p, hm, hp'⟩; exact ⟨p, hp.mem_iff.mpr hm, hp'⟩
  cases h1 : hasNonIntKvs kvs <;> cases h2 : hasNonIntKvs kvs' <;> simp_all

theorem normKvs_acc_congr {r r' : List (Str × JV)} (h : normKvs r [] = normKvs r' [])
    (acc : List (Str × JV)) (hs : Sorted acc) : normKvs r acc = normKvs r' acc := by
  apply sorted_ext (sorted_normKvs r acc hs) (sorted_normKvs r' acc hs)
  intro k
  have h0 : lookupS k (normKvs r []) = lookupS k (normKvs r' []) := by rw [h]
  rw [lookupS_normKvs, lookupS_normKvs] at h0
  rw [lookupS_normKvs, lookupS_normKvs]
  cases h1 : lastFind k r <;> cases h2 : lastFind k r' <;> simp_all [lookupS]

theorem equiv_norm {v v' : JV} (h : Equiv v v') : norm v = norm v' ∧ hasNonInt v = hasNonInt v' := by
  induction h with
  | refl v => exact ⟨rfl, rfl⟩
  | trans _ _ ih1 ih2 => exact ⟨ih1.1.trans ih2.1, ih1.2.trans ih2.2⟩
  | arrCons _ _ ih1 ih2 =>
    simp only [norm, normList, hasNonInt, hasNonIntList, JV.arr.injEq] at ih2 ⊢
    exact ⟨by rw [ih1.1, ih2.1], by rw [ih1.2, ih2.2]⟩
  | objCons k _ _ ih1 ih2 =>
    simp only [norm, normKvs, hasNonInt, hasNonIntKvs, JV.obj.injEq] at ih2 ⊢
    refine ⟨?_, by rw [ih1.2, ih2.2]⟩
    rw [ih1.1]
    exact normKvs_acc_congr ih2.1 _ (by simp [insertKV, Sorted])
  | objPerm hp hnd =>
    simp only [norm, hasNonInt, JV.obj.injEq]
    exact ⟨normKvs_perm hp hnd, hasNonIntKvs_perm hp⟩

/-- Order-insensitive: values that differ only in member order (at any depth) have the same
    canonical encoding (and are rejected alike). -/
theorem c10_order_insensitive {v v' : JV} (h : Equiv v v') : canon v = canon v' := by
  have ⟨h1, h2⟩ := equiv_norm h
  simp [canon, h1, h2]

/-- Loss-free: the encoding is valid JSON and the strict reader returns the identical value
    (objects in sorted order, which is the value's `BTreeMap` form). -/
theorem c10_parse_back {v : JV} {t : Str} (h : canon v = .ok t) : parseJ t = some (norm v) := by
  unfold canon at h
  split at h
  · cases h
  · rename_i hn
    cases h
    exact parseJ_write (norm v) (hasNonInt_norm v (by simpa using hn))

/-- Two values with the same canonical encoding are the same value. -/
theorem c10_canon_injective {v v' : JV} {t : Str} (h : canon v = .ok t) (h' : canon v' = .ok t) :
    norm v = norm v' := by
  have e1 := c10_parse_back h
  have e2 := c10_parse_back h'
  rw [e1] at e2
  exact Option.some.inj e2

/-! keys strictly increasing in every object of the encoded value -/
mutual
def DeepSorted : JV → Prop
  | .arr xs => DeepSortedList xs
  | .obj kvs => Sorted kvs ∧ DeepSortedKvs kvs
  | _ => True
def DeepSortedList : List JV → Prop
  | [] => True
  | x :: xs => DeepSorted x ∧ DeepSortedList xs
def DeepSortedKvs : List (Str × JV) → Prop
  | [] => True
  | (_, v) :: r => DeepSorted v ∧ DeepSortedKvs r
end

theorem deepSortedKvs_insertKV {k : Str} {v : JV} {l : List (Str × JV)}
    (hv : DeepSorted v) (hl : DeepSortedKvs l) : DeepSortedKvs (insertKV k v l) := by
  induction l with
  | nil => simp [insertKV, DeepSortedKvs, hv]
  | cons q r ih =>
    obtain ⟨k', v'⟩ := q
    simp only [DeepSortedKvs] at hl
    simp only [insertKV]
    split
    · simp [DeepSortedKvs, hv, hl.1, hl.2]
    · split
      · simp [DeepSortedKvs, hl.1, ih hl.2]
      · simp [DeepSortedKvs, hv, hl.2]

mutual
theorem deepSorted_norm (v : JV) : DeepSorted (norm v) := by
  match v with
  | .null => simp [norm, DeepSorted]
  | .bool _ => simp [norm, DeepSorted]
  | .num _ => simp [norm, DeepSorted]
  | .str _ => simp [norm, DeepSorted]
  | .arr xs => simp only [norm, DeepSorted]; exact deepSortedList_norm xs
  | .obj kvs =>
    simp only [norm, DeepSorted]
    exact ⟨sorted_normKvs kvs [] (by simp [Sorted]), deepSortedKvs_norm kvs [] (by simp [DeepSortedKvs])⟩
theorem deepSortedList_norm (xs : List JV) : DeepSortedList (normList xs) := by
  match xs with
  | [] => simp [normList, DeepSortedList]
  | x :: xs => simp only [normList, DeepSortedList]; exact ⟨deepSorted_norm x, deepSortedList_norm xs⟩
theorem deepSortedKvs_norm (kvs acc : List (Str × JV)) (ha : DeepSortedKvs acc) :
    DeepSortedKvs (normKvs kvs acc) := by
  match kvs with
  | [] => simpa [normKvs] using ha
  | (k, v) :: r =>
    simp only [normKvs]
    exact deepSortedKvs_norm r _ (deepSortedKvs_insertKV (deepSorted_norm v) ha)
end

/-- Sorted: the text is the encoding of a value whose object members are in strictly increasing
    code-point order at every depth (hence no duplicate keys); it contains no whitespace outside
    strings because the strict reader `parseJ`, which accepts none, reads it (`c10_parse_back`). -/
theorem c10_members_sorted {v : JV} {t : Str} (h : canon v = .ok t) :
    t = write (norm v) ∧ DeepSorted (norm v) := by
  unfold canon at h
  split at h
  · cases h
  · cases h; exact ⟨rfl, deepSorted_norm v⟩

/-- Integers: every 64-bit signed or unsigned integer is rendered exactly (decimal digits that read
    back as the same integer). -/
theorem c10_integers_exact (i : Int) (h1 : -(2 ^ 63 : Int) ≤ i) (h2 : i < (2 ^ 64 : Int)) :
    canon (.num (.int i)) = .ok (intDec i) ∧ parseInt (intDec i) = some (i, []) := by
  constructor
  · have : -9223372036854775808 ≤ i ∧ i < 18446744073709551616 := ⟨by omega, by omega⟩
    simp [canon, hasNonInt, norm, write, writeG, this]
  · have := parseInt_intDec i ndh_nil
    simpa using this

/-! sub-values -/
mutual
def subvalues : JV → List JV
  | .arr xs => .arr xs :: subvaluesList xs
  | .obj kvs => .obj kvs :: subvaluesKvs kvs
  | v => [v]
def subvaluesList : List JV → List JV
  | [] => []
  | x :: xs => subvalues x ++ subvaluesList xs
def subvaluesKvs : List (Str × JV) → List JV
  | [] => []
  | (_, v) :: r => subvalues v ++ subvaluesKvs r
end

mutual
theorem hasNonInt_of_sub (v s : JV) (hs : s ∈ subvalues v) (hn : hasNonInt s = true) : hasNonInt v = true := by
  match v with
  | .null => simp [subvalues] at hs; subst hs; exact hn
  | .bool _ => simp [subvalues] at hs; subst hs; exact hn
  | .num _ => simp [subvalues] at hs; subst hs; exact hn
  | .str _ => simp [subvalues] at hs; subst hs; exact hn
  | .arr xs =>
    simp only [subvalues, List.mem_cons] at hs
    rcases hs with rfl | hs
    · exact hn
    · simp only [hasNonInt]; exact hasNonIntList_of_sub xs s hs hn
  | .obj kvs =>
    simp only [subvalues, List.mem_cons] at hs
    rcases hs with rfl | hs
    · exact hn
    · simp only [hasNonInt]; exact hasNonIntKvs_of_sub kvs s hs hn
theorem hasNonIntList_of_sub (xs : List JV) (s : JV) (hs : s ∈ subvaluesList xs) (hn : hasNonInt s = true) :
    hasNonIntList xs = true := by
  match xs with
  | [] => simp [subvaluesList] at hs
  | x :: xs =>
    simp only [subvaluesList, List.mem_append] at hs
    simp only [hasNonIntList, Bool.or_eq_true]
    rcases hs with hs | hs
    · exact Or.inl (hasNonInt_of_sub x s hs hn)
    · exact Or.inr (hasNonIntList_of_sub xs s hs hn)
theorem hasNonIntKvs_of_sub (r : List (Str × JV)) (s : JV) (hs : s ∈ subvaluesKvs r) (hn : hasNonInt s = true) :
    hasNonIntKvs r = true := by
  match r with
  | [] => simp [subvaluesKvs] at hs
  | (k, v) :: r =>
    simp only [subvaluesKvs, List.mem_append] at hs
    simp only [hasNonIntKvs, Bool.or_eq_true]
    rcases hs with hs | hs
    · exact Or.inl (hasNonInt_of_sub v s hs hn)
    · exact Or.inr (hasNonIntKvs_of_sub r s hs hn)
end

/-- Integer-only: a value that contains a non-integer number anywhere is rejected, never rounded
    or truncated. -/
theorem c10_rejects_non_integers (v : JV) (h : JV.num .nonInt ∈ subvalues v) : canon v = .err 0 := by
  have := hasNonInt_of_sub v _ h (by simp [hasNonInt])
  simp [canon, this]

/- Non-vacuity: a concrete nested value meets the hypotheses (encodes, parses back, and a permuted
   spelling of it is `Equiv`). -/
example : canon (.obj [(['b'], .arr [.bool false, .str ['\n']]), (['a'], .null)])
    = .ok ['{', '"', 'a', '"', ':', 'n', 'u', 'l', 'l', ',', '"', 'b', '"', ':', '[', 'f', 'a', 'l', 's', 'e', ',', '"', '\\', 'n', '"', ']', '}'] := by
  simp [canon, hasNonInt, hasNonIntKvs, hasNonIntList, norm, normKvs, normList, insertKV, strLt, write,
    writeG, writeTailG, writeKvsTailG, quoteG, escBody, escChar]
example : Equiv (.obj [(['b'], .bool true), (['a'], .null)]) (.obj [(['a'], .null), (['b'], .bool true)]) :=
  .objPerm (List.Perm.swap _ _ _) (by decide)
example : JV.num .nonInt ∈ subvalues (.arr [.obj [(['x'], .num .nonInt)]]) := by
  simp [subvalues, subvaluesList, subvaluesKvs]

/-! ### the source text -/

open InToto.JsonText in
/-- Every text that spells `v` (any white space between tokens, any escape form for any character)
    is read as `v`. -/
theorem c10_every_spelling_reads_as_the_value {v : JV} {t : Str} (h : TextSp v t) (hd : depth v ≤ 127) :
    readText t = some v := readText_spelled h hd

open InToto.JsonText in
/-- The canonical encoding does not depend on member order, whitespace or escape spelling of the
    source text: two texts that spell values equal up to member order canonicalize alike. -/
theorem c10_source_text_spelling_is_irrelevant {v v' : JV} {t t' : Str}
    (h : TextSp v t) (h' : TextSp v' t') (hd : depth v ≤ 127) (hd' : depth v' ≤ 127) (he : Equiv v v') :
    (readText t).map canon = (readText t').map canon := by
  rw [readText_spelled h hd, readText_spelled h' hd', Option.map_some, Option.map_some,
    c10_order_insensitive he]

/- Non-vacuity: `[ 1 ,"\u00e9\n\ud83d\uDE00"]` and a compact spelling with raw characters spell the
   same value, and the reader evaluates both to it (kernel-checked). -/
open InToto.JsonText in
example : readText " [ 1 ,\"\\u00e9\\n\\ud83d\\uDE00\"]\n".toList
    = some (.arr [.num (.int 1), .str ['é', '\n', '😀']]) := by rfl
open InToto.JsonText in
example : readText "[1,\"é\\u000a😀\"]".toList = some (.arr [.num (.int 1), .str ['é', '\n', '😀']]) := by rfl
open InToto.JsonText in
example : TextSp (.arr [.num (.int 1)]) " [ 1 ]".toList := by
  refine ⟨[' '], ['[', ' ', '1', ' ', ']'], [], by simp [Ws, isWs], ?_, by simp [Ws], rfl⟩
  simp only [ValSp]
  refine ⟨[' '], ['1'], [' '], [']'], by simp [Ws, isWs], ?_, by simp [Ws, isWs], by simp [TailSp], rfl⟩
  refine ⟨⟨by decide, by decide⟩, ?_⟩
  show ['1'] = natDec 1
  rw [natDec_lt10 (by decide)]; rfl

end InToto.Json
