import InTotoModel.Lemmas.Codec
import InTotoModel.Lemmas.TimeParse
/-
  C16 — Layout, link and signed-block metadata survive a wire round trip unchanged.

  Model: `Model/Wire.lean` (the hand-written codecs: artifact rules, commands, byproducts) and
  `Model/Codec.lean` (the serde derives of `Link`, `Step`, `Inspection`, `Layout` with
  `Layout::try_into`, `Signature`, `Metablock` with the untagged `MetadataWrapper`, and the field
  types `VirtualTargetPath`, `TargetDescription`, `KeyId`, `u32`).  Both directions are run against
  the real (de)serialisers on valid and mutated documents by the harness (`doc_dec`, `rule_dec`,
  `bp_dec`), together with the value-level round trip and byte-identical re-serialisation oracle.

  Theorems, for all values:
  * round trip - decoding the encoding of every representable link, step, inspection, layout,
    signature and signed block returns it (`c16_*_round_trip`); "representable" is spelled out per
    type (`LinkW.WF`, `StepW.WF`, `LayoutGood`, ...: what the Rust types enforce by construction);
  * the readers never alter what they accept (`c16_*_faithful`): the members a reader consumed are,
    verbatim, the encoding of the fields it returns - rule keyword and prefixes, threshold, digests
    (lower-case hex only), key ids, command arguments, environment entries;
  * a parsed layout's key table only holds entries filed under the key's own id.
  Parameter (not modelled, `DocEnv`): reading/writing one public key and its intrinsic id (C12).
  The RFC 3339 reader/writer of `expires` is a parameter of the general theorems and is instantiated
  with the model of chrono's (`Model/Time.lean`, `DocEnv.withStdTime`) in the `_std` theorems: there
  the expiry hypotheses of `LayoutGood` are proved, for every whole-second instant of the years
  0000–9999.  Known findings (see known_findings.json): a byproducts
  extra-field map that reuses a reserved member name, an expiry after year 9999.
-/
namespace InToto.Wire
open InToto InToto.Rules InToto.KeyId

/-- Every rule form survives the wire: decoding the encoding returns the rule. -/
theorem c16_rule_round_trip (r : Rule) : ruleOfJson (ruleToJson r) = some r := rule_round_trip r

/-- Commands survive the wire. -/
theorem c16_command_round_trip (c : List Str) : commandOfJson (commandToJson c) = some c := command_round_trip c

/-- The rule reader never alters what it accepts: an accepted token list is exactly the encoding of
    the rule it returns. -/
theorem c16_rule_reader_faithful (toks : List Str) (r : Rule) (h : parseRuleTokens toks = some r) :
    ruleTokens r = toks := rule_reader_faithful toks r h

/-- Consequently two different accepted token lists are never read as the same rule. -/
theorem c16_rule_reader_injective (t1 t2 : List Str) (r : Rule)
    (h1 : parseRuleTokens t1 = some r) (h2 : parseRuleTokens t2 = some r) : t1 = t2 :=
  rule_reader_injective t1 t2 r h1 h2

/-- Byproducts (return value, output streams and any extra fields) survive the wire. -/
theorem c16_byproducts_round_trip (b : ByProducts) (hwf : b.WF) :
    byProductsOfJson (byProductsToJson b) = some b := byproducts_round_trip b hwf

/-- A link survives the wire. -/
theorem c16_link_round_trip (l : LinkW) (h : l.WF) : linkOfJson (linkToJson l) = some l := link_round_trip l h

/-- The link reader never alters what it accepts. -/
theorem c16_link_reader_faithful {kvs : List (Str × JV)} {l : LinkW} (h : linkOfJson (.obj kvs) = some l) :
    getField kName kvs = some (.str l.name) ∧
    getField kMaterials kvs = some (artsToJson l.materials) ∧
    getField kProducts kvs = some (artsToJson l.products) ∧
    getField kCommand kvs = some (commandToJson l.command) ∧
    (∀ m, l.env = some m → getField kEnvironment kvs = some (strMapToJson m)) ∧
    (l.env = none → getField kEnvironment kvs = none ∨ getField kEnvironment kvs = some .null) :=
  link_faithful h

/-- Digests are read exactly as written: only `sha256` / `sha512`, lower-case hex. -/
theorem c16_digest_reader_faithful {v : JV} {d : Digest} (h : digestOfJson v = some d) : digestToJson d = v :=
  (digest_faithful h).1

/-- A step survives the wire; its reader never alters what it accepts (type tag, name, threshold,
    rules, key ids, command). -/
theorem c16_step_round_trip (s : StepW) (h : s.WF) : stepOfJson (stepToJson s) = some s := step_round_trip s h

theorem c16_step_reader_faithful {kvs : List (Str × JV)} {s : StepW} (h : stepOfJson (.obj kvs) = some s) :
    getField kType kvs = some (.str s.typ) ∧
    getField kName kvs = some (.str s.name) ∧
    getField kThreshold kvs = some (.num (.int s.threshold)) ∧
    getField kExpMaterials kvs = some (rulesToJson s.expMaterials) ∧
    getField kExpProducts kvs = some (rulesToJson s.expProducts) ∧
    getField kPubkeys kvs = some (keyIdsToJson s.pubkeys) ∧
    getField kExpCommand kvs = some (commandToJson s.expCommand) := step_faithful h

/-- An inspection survives the wire; its reader never alters what it accepts. -/
theorem c16_inspection_round_trip (i : InspW) : inspOfJson (inspToJson i) = some i := insp_round_trip i

theorem c16_inspection_reader_faithful {kvs : List (Str × JV)} {i : InspW} (h : inspOfJson (.obj kvs) = some i) :
    getField kType kvs = some (.str i.typ) ∧
    getField kName kvs = some (.str i.name) ∧
    getField kExpMaterials kvs = some (rulesToJson i.expMaterials) ∧
    getField kExpProducts kvs = some (rulesToJson i.expProducts) ∧
    getField kRun kvs = some (commandToJson i.run) := insp_faithful h

/-- A signature entry survives the wire; its reader never alters what it accepts. -/
theorem c16_signature_round_trip (s : SigW) (h : keyIdOk s.keyid = true) : sigOfJson (sigToJson s) = some s :=
  sig_round_trip s h

theorem c16_signature_reader_faithful {kvs : List (Str × JV)} {s : SigW} (h : sigOfJson (.obj kvs) = some s) :
    getField kKeyid kvs = some (.str s.keyid) ∧ getField kSig kvs = some (.str (hexEncode s.sig)) :=
  sig_faithful h

variable {K : Type}

/-- A layout survives the wire (given that its keys and its expiry do, `LayoutGood`). -/
theorem c16_layout_round_trip (E : DocEnv K) (L : LayoutW K) (h : LayoutGood E L) :
    layoutOfJson E (layoutToJson E L) = some L := layout_round_trip E L h

theorem withStdTime_parseTime (E : DocEnv K) : E.withStdTime.parseTime = Time.parseTimeKey := by
  unfold DocEnv.withStdTime; rfl
theorem withStdTime_fmtTime (E : DocEnv K) : E.withStdTime.fmtTime = Time.fmtTimeKey := by
  unfold DocEnv.withStdTime; rfl
theorem withStdTime_kidOf (E : DocEnv K) : E.withStdTime.kidOf = E.kidOf := by
  unfold DocEnv.withStdTime; rfl
theorem withStdTime_keyOfJson (E : DocEnv K) : E.withStdTime.keyOfJson = E.keyOfJson := by
  unfold DocEnv.withStdTime; rfl
theorem withStdTime_keyToJson (E : DocEnv K) : E.withStdTime.keyToJson = E.keyToJson := by
  unfold DocEnv.withStdTime; rfl

/-- With the modelled RFC 3339 reader/writer the expiry conditions of `LayoutGood` hold for every
    whole-second instant of the years 0000–9999 (`Time.WholeKey`), so a layout survives the wire given
    only that its keys do. -/
theorem c16_layout_round_trip_std (E : DocEnv K) (L : LayoutW K)
    (hkeys : ∀ p ∈ L.keys, keyIdOk p.1 = true ∧ E.kidOf p.2 = p.1 ∧ E.keyOfJson (E.keyToJson p.2) = some p.2)
    (hexp : Time.WholeKey L.expires) (hsteps : ∀ s ∈ L.steps, s.WF) :
    layoutOfJson E.withStdTime (layoutToJson E.withStdTime L) = some L := by
  apply layout_round_trip E.withStdTime L
  constructor
  · rw [withStdTime_kidOf, withStdTime_keyOfJson, withStdTime_keyToJson]; exact hkeys
  · rw [withStdTime_parseTime, withStdTime_fmtTime]
    exact Time.parseTimeKey_fmtTimeKey hexp
  · unfold truncSec; exact Time.truncKey_wholeKey hexp
  · exact hsteps

/-- With the modelled reader the expiry a layout reader returns is the instant the document's text
    denotes under RFC 3339, kept to the second. -/
theorem c16_layout_expiry_is_the_instant_of_the_text (E : DocEnv K) {kvs : List (Str × JV)} {L : LayoutW K}
    (h : layoutOfJson E.withStdTime (.obj kvs) = some L) :
    ∃ text i, getField kExpires kvs = some (.str text) ∧ Time.parseRfc3339 text = some i ∧
      L.expires = (Time.truncWhole i).key := by
  obtain ⟨_, ⟨t, k, h1, h2, h3⟩, _⟩ := layout_faithful E.withStdTime h
  have h2' : Time.parseTimeKey t = some k := by rw [← withStdTime_parseTime E]; exact h2
  unfold Time.parseTimeKey at h2'
  cases hp : Time.parseRfc3339 t with
  | none => rw [hp] at h2'; cases h2'
  | some i =>
    rw [hp] at h2'
    simp only [Option.map_some, Option.some.injEq] at h2'
    refine ⟨t, i, h1, hp, ?_⟩
    rw [h3, ← h2']
    unfold truncSec
    -- the reader only yields instants with nanos < 2·10⁹
    have hn : i.nanos < 2000000000 := Time.parse_nanos_lt hp
    exact Time.truncKey_key i hn

/-- The layout reader: readme, steps and inspections are what the document says, the expiry is the
    instant the document's text denotes (to the second), and every entry of the parsed key table is
    filed under its key's own id. -/
theorem c16_layout_reader_faithful (E : DocEnv K) {kvs : List (Str × JV)} {L : LayoutW K}
    (h : layoutOfJson E (.obj kvs) = some L) :
    getField kReadme kvs = some (.str L.readme) ∧
    (∃ t i, getField kExpires kvs = some (.str t) ∧ E.parseTime t = some i ∧ L.expires = truncSec i) ∧
    (∃ xs, getField kSteps kvs = some (.arr xs) ∧ allOpt stepOfJson xs = some L.steps) ∧
    (∃ xs, getField kInspect kvs = some (.arr xs) ∧ allOpt inspOfJson xs = some L.inspect) ∧
    (∀ p ∈ L.keys, E.kidOf p.2 = p.1) := layout_faithful E h

/-- A signed block (signatures + layout or link, through the untagged reader) survives the wire; in
    particular a written link is never read back as a layout. -/
theorem c16_block_round_trip (E : DocEnv K) (b : BlockW K) (hs : ∀ s ∈ b.signatures, keyIdOk s.keyid = true)
    (hm : MetaGood E b.signed) : blockOfJson E (blockToJson E b) = some b := block_round_trip E b hs hm

theorem c16_link_is_not_read_as_layout (E : DocEnv K) (l : LinkW) : layoutOfJson E (linkToJson l) = none :=
  layoutOfJson_link E l

/- Non-vacuity: a concrete link, step and signature meet the representability conditions and do
   round-trip (evaluated by the kernel). -/
def exLink : LinkW :=
  { name := "build".toList, materials := [("src/a.c".toList, [("sha256".toList, [0xab, 0x01])])],
    products := [("a.out".toList, [("sha256".toList, [0x00, 0xff]), ("sha512".toList, [1, 2, 3])])],
    env := some [("PATH".toList, "/bin".toList)],
    byproducts := { returnValue := some 0, stderr := some [], stdout := some "ok\n".toList, other := [("x".toList, "y".toList)] },
    command := ["cc".toList, "a.c".toList] }

theorem exLink_WF : exLink.WF := by
  refine ⟨?_, ?_, ?_, ?_⟩
  · intro p hp d hd
    simp only [exLink, List.mem_singleton] at hp
    subst hp
    simp only [List.mem_singleton] at hd
    subst hd
    decide
  · intro p hp d hd
    simp only [exLink, List.mem_singleton] at hp
    subst hp
    simp only [List.mem_cons, List.mem_nil_iff, or_false] at hd
    rcases hd with rfl | rfl <;> decide
  · intro p hp
    simp only [exLink, List.mem_singleton] at hp
    subst hp
    decide
  · intro i hi
    simp only [exLink, Option.some.injEq] at hi
    subst hi
    decide

example : linkOfJson (linkToJson exLink) = some exLink := c16_link_round_trip exLink exLink_WF

end InToto.Wire
