import InTotoModel.Model.Record
/-
  C18 — Recorded artifacts are exactly the files present, with their true digests.

  Proved (all inputs): the strip-prefix rule removes the longest listed prefix that matches; the
  artifact map never silently replaces a file by another one (a key already filed for a different
  file is an error) and has pairwise distinct keys; `in_toto_run` records materials on the state
  before the command, products on the state after it, and its byproducts are the command's.
  Not proved: that the tree walk of Model/Record.lean is what the operating system, walkdir and
  the digest primitives do — that is the differential part (materialised trees with relative and
  absolute links to files and directories, chains, cycles, overlapping and non-normalised path
  arguments, strip lists, both algorithms; digests recomputed by the model's own SHA-256).
-/
namespace InToto.Record

theorem isPrefix_nil (p : Str) : isPrefix [] p = true := by cases p <;> rfl

theorem stripLoop_spec (path : Str) (ls : List Str) (best : Str) (hb : isPrefix best path = true) :
    let r := stripLoop path ls best
    isPrefix r path = true ∧ (r = best ∨ r ∈ ls) ∧ best.length ≤ r.length ∧
      ∀ l ∈ ls, isPrefix l path = true → l.length ≤ r.length := by
  induction ls generalizing best with
  | nil => simp [stripLoop, hb]
  | cons l rest ih =>
    simp only [stripLoop]
    split
    · rename_i hnp
      have ⟨h1, h2, h3, h4⟩ := ih best hb
      refine ⟨h1, ?_, h3, ?_⟩
      · rcases h2 with h | h
        · exact Or.inl h
        · exact Or.inr (List.mem_cons_of_mem _ h)
      · intro x hx hpx
        simp only [List.mem_cons] at hx
        rcases hx with rfl | hx
        · simp [hpx] at hnp
        · exact h4 x hx hpx
    · rename_i hp
      split
      · rename_i hskip
        have ⟨h1, h2, h3, h4⟩ := ih best hb
        refine ⟨h1, ?_, h3, ?_⟩
        · rcases h2 with h | h
          · exact Or.inl h
          · exact Or.inr (List.mem_cons_of_mem _ h)
        · intro x hx hpx
          simp only [List.mem_cons] at hx
          rcases hx with rfl | hx
          · simp only [Bool.and_eq_true, decide_eq_true_eq] at hskip
            omega
          · exact h4 x hx hpx
      · rename_i hnskip
        have hpl : isPrefix l path = true := by simpa using hp
        have ⟨h1, h2, h3, h4⟩ := ih l hpl
        have hlen : best.length ≤ l.length := by
          simp only [Bool.and_eq_true, decide_eq_true_eq, not_and, Bool.not_eq_true', List.isEmpty_iff] at hnskip
          by_cases he : best = []
          · simp [he]
          · have : best.isEmpty = false := by cases best <;> simp_all
            have := hnskip (by simp [this])
            omega
        refine ⟨h1, ?_, by omega, ?_⟩
        · rcases h2 with h | h
          · exact Or.inr (by rw [h]; simp)
          · exact Or.inr (List.mem_cons_of_mem _ h)
        · intro x hx hpx
          simp only [List.mem_cons] at hx
          rcases hx with rfl | hx
          · exact h3
          · exact h4 x hx hpx

/-- The recorded key is the path with the longest matching strip-prefix removed: what is cut off is
    a listed prefix of the path (or nothing), and no listed prefix of the path is longer. -/
theorem c18_lstrip_removes_longest_prefix (path : Str) (ls : List Str) :
    ∃ cut : Str, applyLeftStrip path (some ls) = path.drop cut.length ∧ isPrefix cut path = true ∧
      (cut = [] ∨ cut ∈ ls) ∧ ∀ l ∈ ls, isPrefix l path = true → l.length ≤ cut.length := by
  have ⟨h1, h2, _, h4⟩ := stripLoop_spec path ls [] (isPrefix_nil path)
  exact ⟨stripLoop path ls [], rfl, h1, h2, h4⟩

theorem c18_no_strip_list_keeps_path (path : Str) : applyLeftStrip path none = path := rfl

theorem insertUnique_spec {acc : List Entry} {e : Entry} {r : List Entry}
    (h : insertUnique acc e = .ok r) (hnd : (acc.map Entry.key).Nodup) :
    (r.map Entry.key).Nodup ∧ (∀ x ∈ acc, x ∈ r) ∧ ∃ x ∈ r, x.key = e.key ∧ x.fileId = e.fileId := by
  unfold insertUnique at h
  split at h
  · rename_i hnone
    cases h
    refine ⟨?_, fun x hx => by simp [hx], e, by simp, rfl, rfl⟩
    simp only [List.map_append, List.map_cons, List.map_nil]
    rw [List.nodup_append]
    refine ⟨hnd, by simp, ?_⟩
    intro a ha b hb
    simp at hb
    subst hb
    intro hab
    subst hab
    obtain ⟨x, hx, hk⟩ := List.mem_map.mp ha
    have := List.find?_eq_none.mp hnone x hx
    simp [hk] at this
  · rename_i x hx
    split at h
    · rename_i hid
      cases h
      have hm := List.mem_of_find?_eq_some hx
      have hp := List.find?_some hx
      exact ⟨hnd, fun y hy => hy, x, hm, by simpa using hp, hid⟩
    · cases h

/-- No silent replacement: if recording succeeds, every file that was encountered is the file filed
    under its key (a second, different file with that key would have been an error), and keys are
    pairwise distinct. -/
theorem c18_no_silent_replacement (acc es r : List Entry) (h : insertAll acc es = .ok r)
    (hnd : (acc.map Entry.key).Nodup) :
    (r.map Entry.key).Nodup ∧ (∀ x ∈ acc, x ∈ r) ∧
      ∀ e ∈ es, ∃ x ∈ r, x.key = e.key ∧ x.fileId = e.fileId := by
  induction es generalizing acc with
  | nil => simp only [insertAll] at h; cases h; exact ⟨hnd, fun x hx => hx, by simp⟩
  | cons e rest ih =>
    simp only [insertAll] at h
    split at h
    · rename_i acc' hins
      have ⟨n1, k1, x, hx, hk, hid⟩ := insertUnique_spec hins hnd
      have ⟨n2, k2, a2⟩ := ih acc' h n1
      refine ⟨n2, fun y hy => k2 y (k1 y hy), ?_⟩
      intro e' he'
      simp only [List.mem_cons] at he'
      rcases he' with rfl | he'
      · exact ⟨x, k2 x hx, hk, hid⟩
      · exact a2 e' he'
    · cases h
    · cases h

/-- Two different files that would receive the same key make recording fail. -/
theorem c18_colliding_files_are_an_error (acc : List Entry) (e : Entry) (x : Entry)
    (hx : acc.find? (fun y => y.key = e.key) = some x) (hdiff : x.fileId ≠ e.fileId) (rest : List Entry) :
    insertAll acc (e :: rest) = .err 18 := by
  simp [insertAll, insertUnique, hx, hdiff]

/-- Running a step: materials as they were before the command, products as they are after it,
    byproducts equal to what the command produced. -/
theorem c18_run_sequencing {W B : Type} (record : W → Out (List Entry)) (exec : W → Option (W × B)) (w0 : W)
    (r : RunResult W B) (h : inTotoRun record exec w0 = .ok r) :
    record w0 = .ok r.materials ∧ ∃ w1 b, exec w0 = some (w1, b) ∧ record w1 = .ok r.products ∧
      r.byproducts = b ∧ r.world = w1 := by
  unfold inTotoRun at h
  split at h
  · rename_i m hm
    split at h
    · cases h
    · rename_i w1 b he
      split at h
      · rename_i p hp
        cases h
        exact ⟨hm, w1, b, he, hp, rfl, rfl⟩
      · cases h
      · cases h
  · cases h
  · cases h

/- Non-vacuity: the longest of two matching prefixes is removed, whichever is listed first. -/
example : applyLeftStrip ['a', '/', 'b', '/', 'c'] (some [['a', '/'], ['a', '/', 'b', '/']]) = ['c'] := by decide
example : applyLeftStrip ['a', '/', 'b', '/', 'c'] (some [['a', '/', 'b', '/'], ['a', '/']]) = ['c'] := by decide

end InToto.Record
