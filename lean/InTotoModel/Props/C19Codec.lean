import InTotoModel.Lemmas.AttestCodec
import InTotoModel.Lemmas.TimeParse
/-
  C19 (value level) — "serializes to a canonical form that parses back to an equal value".

  `Model/AttestCodec.lean` is a codec generic in `Generated.schemas` (member names, field types,
  optionality, `skip_serializing_if`, `deny_unknown_fields`, the version detection order and the
  `StateV01` consistency check are read from the source on every run by translate/schema.py).
  Theorems, for every well-typed value (`WT`: members in schema order, integers in `usize` range, maps
  canonical, externally modelled members in normal form, a `V0_1` statement's declared predicate type
  naming the contained predicate) and with the schema table's well-formedness checked by the kernel:

  * `c19_value_round_trip`        — decoding the encoding of a value returns it, for every field type;
  * `c19_predicate_round_trip`    — the same through `PredicateWrapper`'s version detection: the first
                                     format (in the source's trial order) that accepts the written
                                     predicate is its own, because the formats are disjoint;
  * `c19_statement_round_trip`    — the same through `StatementWrapper`.
  The model is tied to the real (de)serialisers by the `att_dec` correspondence (valid, mutated and
  re-notated documents).
-/
namespace InToto.AttestCodec
open InToto InToto.Generated InToto.Attest InToto.Wire

/-- Decoding the encoding of any well-typed value returns the value. -/
theorem c19_value_round_trip (E : Ext) (f : Nat) (ty : FTy) (v : AVal) (h : WT E f ty v) :
    dec E f ty (enc f ty v) = some v := dec_enc E f ty v h

theorem wrapper_round_trip (E : Ext) (order : List (Str × Str)) (formats : List Str)
    (horder : order.map (·.2) = formats)
    (hdisj : ∀ keys a b, a ∈ candidates formats keys → b ∈ candidates formats keys → a = b)
    (st : Str) (fields : List (Str × AVal)) (hst : st ∈ formats)
    (hwt : WT E fuel (.ref st) (.struct st fields)) :
    firstSome (order.map fun p => dec E fuel (.ref p.2) (enc fuel (.ref st) (.struct st fields))) =
      some (.struct st fields) := by
  have ih := dec_enc E fuel (.ref st) (.struct st fields) hwt
  obtain ⟨kvs, hkvs⟩ : ∃ kvs, enc fuel (.ref st) (.struct st fields) = .obj kvs := by
    show ∃ kvs, enc (11 + 1) (.ref st) (.struct st fields) = .obj kvs
    rw [enc_ref]
    have hwt' : WT E (11 + 1) (.ref st) (.struct st fields) := hwt
    simp only [WT] at hwt'
    obtain ⟨_, _, s, hs, _⟩ := hwt'
    rw [hs]; exact ⟨_, rfl⟩
  rw [hkvs] at ih ⊢
  obtain ⟨s0, hs0, hadm0⟩ := dec_ref_admits E 11 st kvs _ ih
  apply firstSome_unique _ (fun p : Str × Str => p.2 = st)
  · have : st ∈ order.map (·.2) := by rw [horder]; exact hst
    obtain ⟨p, hp, rfl⟩ := List.mem_map.mp this
    exact ⟨p, hp, rfl⟩
  · intro p hp
    refine ⟨fun e => by rw [e]; exact ih, fun hne => ?_⟩
    cases hd : dec E fuel (.ref p.2) (.obj kvs) with
    | none => rfl
    | some w =>
      exfalso
      obtain ⟨s1, hs1, hadm1⟩ := dec_ref_admits E 11 p.2 kvs w hd
      have hp2 : p.2 ∈ formats := by rw [← horder]; exact List.mem_map_of_mem hp
      have c1 : p.2 ∈ candidates formats (kvs.map (·.1)) := by
        simp only [candidates, List.mem_filter]; exact ⟨hp2, by rw [hs1]; exact hadm1⟩
      have c0 : st ∈ candidates formats (kvs.map (·.1)) := by
        simp only [candidates, List.mem_filter]; exact ⟨hst, by rw [hs0]; exact hadm0⟩
      exact hne (hdisj _ _ _ c1 c0)

/-- A predicate written by the library is read back, through version detection, as the same predicate
    of the same format version. -/
theorem c19_predicate_round_trip (E : Ext) (st : Str) (fields : List (Str × AVal)) (hst : st ∈ predicateFormats)
    (hwt : WT E fuel (.ref st) (.struct st fields)) :
    decPredicate E (encTop (.struct st fields)) = some (.struct st fields) :=
  wrapper_round_trip E predicateTrialOrder predicateFormats trial_order_is_format_list.1
    c19_predicate_formats_disjoint st fields hst hwt

/-- A statement written by the library is read back, through version detection, as the same statement. -/
theorem c19_statement_round_trip (E : Ext) (st : Str) (fields : List (Str × AVal)) (hst : st ∈ statementFormats)
    (hwt : WT E fuel (.ref st) (.struct st fields)) :
    decStatement E (encTop (.struct st fields)) = some (.struct st fields) :=
  wrapper_round_trip E statementTrialOrder statementFormats trial_order_is_format_list.2
    c19_statement_formats_disjoint st fields hst hwt

/-- The externally modelled member types are in normal form when written by their own encoders, so the
    `ext` hypothesis of `WT` holds for what the library writes: timestamps (`AutoSi`, any whole-minute
    offset, years 0000-9999, leap seconds), artifact maps, commands, byproducts. -/
theorem c19_written_members_are_in_normal_form :
    (∀ (t : Time.Time) (off : Int), Time.OffsetOk off →
      (0 ≤ (Time.civilFromDays ((t.secs + off) / 86400)).y ∧ (Time.civilFromDays ((t.secs + off) / 86400)).y ≤ 9999) →
      t.nanos < 2000000000 → (t.nanos ≥ 1000000000 → t.secs % 60 = 59) →
      stdExt.norm sTime (.str (Time.fmtAutoSi t off)) = some (.str (Time.fmtAutoSi t off))) ∧
    (∀ a : Rules.Artifacts, ArtsWF a → stdExt.norm sArtifacts (artsToJson a) = some (artsToJson a)) ∧
    (∀ c : List Str, stdExt.norm sCommand (commandToJson c) = some (commandToJson c)) ∧
    (∀ b : ByProducts, b.WF → stdExt.norm sByproducts (byProductsToJson b) = some (byProductsToJson b)) := by
  have hE : stdExt.norm = stdNorm := rfl
  rw [hE]
  refine ⟨?_, ?_, ?_, ?_⟩
  · intro t off ho hy hn hl
    rw [stdNorm_time]
    simp only [normTime, Time.normTimeStamp_fmtAutoSi t off ho hy hn hl, Option.map_some]
  · intro a ha
    rw [stdNorm_artifacts, arts_round_trip ha]; rfl
  · intro c
    rw [stdNorm_command, command_round_trip c]; rfl
  · intro b hb
    rw [stdNorm_byproducts, byproducts_round_trip b hb]; rfl

/-- The schema table read from the source is well formed: struct names distinct, member names
    distinct within a struct, "required" = "not an `Option`", `skip_serializing_if` only on `Option`s. -/
theorem c19_generated_schemas_well_formed :
    schemas.all schemaWF = true ∧ nodupB (schemas.map (·.name)) = true := schemas_wf

/-- The source decodes `StateV01` through the check of the declared predicate type. -/
theorem c19_source_checks_declared_predicate_type : stateV01ChecksPredicateType = true := by decide

/-- "Building a statement from link metadata carries the link's name, artifacts, command, byproducts
    and environment over unchanged": in the source, every member of the statement `merge` builds is
    initialised by a plain move of the corresponding link field (no call, no conversion in between);
    the v0.1 statement takes the link's products as subject and declares the version of the predicate
    it is given.  (Table read from `FromMerge::merge` on every run.) -/
theorem c19_merge_moves_the_link_fields :
    mergeTable =
      [("StateNaive".toList,
          [("_type".toList, "StatementVer::Naive".toList), ("name".toList, "meta.name".toList),
           ("materials".toList, "meta.materials".toList), ("products".toList, "meta.products".toList),
           ("env".toList, "meta.env".toList), ("command".toList, "meta.command".toList),
           ("byproducts".toList, "meta.byproducts".toList)]),
       ("StateV01".toList,
          [("_type".toList, "StatementVer::V0_1".toList), ("subject".toList, "meta.products".toList),
           ("predicateType".toList, "p.version()".toList), ("predicate".toList, "p.into_enum()".toList)])] := by
  decide

/- Non-vacuity: a SLSA v0.2 predicate with an optional member present, one absent and skipped, a
   nested struct and a digest map is well typed, and the kernel evaluates its round trip. -/
def exPredicate : AVal :=
  .struct "SLSAProvenanceV02".toList
    [("builder".toList, .struct "Builder".toList [("id".toList, .str "https://b".toList)]),
     ("buildType".toList, .str "https://t".toList),
     ("invocation".toList, .none),
     ("buildConfig".toList, .some (.str "cfg".toList)),
     ("metadata".toList, .none),
     ("materials".toList, .some (.list [.struct "Material".toList
        [("uri".toList, .some (.str "git+https://x".toList)), ("digest".toList, .some (.map [("sha1".toList, "ab".toList)]))]]))]

example : decPredicate stdExt (encTop exPredicate) = some exPredicate := by rfl

/- and a concrete well-typed value (the hypothesis of the round-trip theorems is satisfiable) -/
example : WT stdExt 2 (.ref "Builder".toList) (.struct "Builder".toList [("id".toList, .str "https://b".toList)]) := by
  have hs : findSchema "Builder".toList = some ⟨"Builder".toList, true, [⟨"id".toList, true, false, .str, false⟩]⟩ := by
    decide
  unfold WT
  refine ⟨by decide, rfl, _, hs, by decide, ?_, ?_⟩
  · intro p hp
    simp only [List.zip_cons_cons, List.zip_nil_right, List.mem_singleton] at hp
    subst hp
    constructor
    · intro h; cases h
    · intro _; unfold WT; trivial
  · intro h; exact absurd h (by decide)

end InToto.AttestCodec
