import InTotoModel.Props.C04
import InTotoModel.Props.C12
/-
  C09 — Whatever the library signs verifies again after a trip through the wire format.

  Model: signing appends `⟨kidOf (pub sk), sign sk text⟩` for each private key `sk` (both
  `Metablock::new` and `MetablockBuilder::sign/build`; the builder stores the signatures in a map and
  sorts them, i.e. yields a permutation), the wire carries key ids verbatim and signature values as
  lower-case hex (`c12_hex_round_trip`), the metadata itself survives by C16, and signing and
  verifying derive the same text from the same metadata (one function, `signedText`, C11).
  `sign`/`valid` are ring: the only assumption is the functional correctness of the primitive,
  `valid (pub sk) (sign sk) = true`, an explicit hypothesis.  The negative clauses (another key, a
  flipped bit, the same material under another scheme) are statements about ring and are sampled by
  the harness, not proved.
-/
namespace InToto.Threshold
open InToto.KeyId

variable {K SK : Type}

/-- A block signed by `sks` (pairwise distinct key ids) verifies against exactly those signers'
    public keys with threshold = number of signers — for every order in which signatures and keys
    are presented (constructor order, the builder's sorted order, any order after a wire trip) and
    every hash-map iteration order. -/
theorem c09_signed_block_verifies (kidOf : K → Str) (pub : SK → K) (sign : SK → Bytes)
    (valid : K → Bytes → Bool) (hsv : ∀ sk, valid (pub sk) (sign sk) = true)
    (sks : List SK) (hne : sks ≠ []) (hnd : (sks.map (fun sk => kidOf (pub sk))).Nodup)
    (sigs' : List Sig) (keys' : List K)
    (hs : sigs'.Perm (sks.map fun sk => ⟨kidOf (pub sk), sign sk⟩))
    (hk : keys'.Perm (sks.map pub))
    (ord : List (Str × Bytes) → List (Str × Bytes)) (hord : IsOrder ord) :
    verifySigs kidOf valid ord sigs' sks.length keys' = .ok () := by
  have hlen : 1 ≤ sks.length := by cases sks <;> simp_all
  apply c04_complete kidOf valid (sks.map fun sk => ⟨kidOf (pub sk), sign sk⟩) sks.length (sks.map pub)
    (by simpa [List.map_map, Function.comp_def] using hnd)
    ?_ (sks.map fun sk => kidOf (pub sk)) hnd hlen (by simp) ?_ sigs' keys' hs hk ord hord
  · -- distinct ids ⇒ the id determines the key among the signers
    intro k hk1 k' hk2 e
    obtain ⟨a, ha, rfl⟩ := List.mem_map.mp hk1
    obtain ⟨b, hb, rfl⟩ := List.mem_map.mp hk2
    have : a = b := by
      clear hs hk hk1 hk2 hlen hne
      induction sks with
      | nil => simp at ha
      | cons x xs ih =>
        simp only [List.map_cons, List.nodup_cons] at hnd
        simp only [List.mem_cons] at ha hb
        rcases ha with rfl | ha <;> rcases hb with rfl | hb
        · rfl
        · exfalso; exact hnd.1 (List.mem_map.mpr ⟨b, hb, e.symm⟩)
        · exfalso; exact hnd.1 (List.mem_map.mpr ⟨a, ha, e⟩)
        · exact ih hnd.2 ha hb
    rw [this]
  · intro id hid
    obtain ⟨sk, hsk, rfl⟩ := List.mem_map.mp hid
    exact ⟨pub sk, List.mem_map.mpr ⟨sk, hsk, rfl⟩, rfl, ⟨kidOf (pub sk), sign sk⟩,
      List.mem_map.mpr ⟨sk, hsk, rfl⟩, rfl, hsv sk⟩

/-- A signature counts only through the primitive's verdict under the key its id names: whatever
    `verify` accepts contains, for each counted id, a value that `valid` accepts under an authorized
    key with that id (so a value the primitive rejects — made by another key, altered, or made under
    another scheme — never counts). -/
theorem c09_only_primitive_accepted_signatures_count (kidOf : K → Str) (valid : K → Bytes → Bool)
    (ord : List (Str × Bytes) → List (Str × Bytes)) (hord : IsOrder ord)
    (sigs : List Sig) (t : Nat) (auth : List K)
    (h : verifySigs kidOf valid ord sigs t auth = .ok ()) :
    ∃ ids : List Str, ids.Nodup ∧ t ≤ ids.length ∧
      ∀ id ∈ ids, ∃ k ∈ auth, kidOf k = id ∧ ∃ σ ∈ sigs, σ.kid = id ∧ valid k σ.val = true :=
  (c04_sound kidOf valid ord hord sigs t auth h).2

/-- Signature values survive the wire (hex). -/
theorem c09_signature_value_survives_wire (v : Bytes) : hexDecode (hexEncode v) = some v :=
  c12_hex_round_trip v

/- Non-vacuity: two signers. -/
example : verifySigs (K := Str) id (fun _ v => v == [1]) id
    [⟨['b'], [1]⟩, ⟨['a'], [1]⟩] 2 [['a'], ['b']] = .ok () := by decide

end InToto.Threshold
