import InTotoModel.Model.Pae
import InTotoModel.Lemmas.Decimal
/-
  C20 — Envelope pre-authentication encoding is injective and round-trips.

  Model: `InToto.Pae.pack` / `InToto.Pae.unpack` (src/models/envelope/pae_v1.rs).
  `t` is the UTF-8 byte string of the payload type, `p` the payload; `utf8ok` is
  `str::from_utf8(..).is_ok()` (any predicate; the theorems hold for all of them).
  The bounds `< 2^64` are the range of `usize` (a Rust slice can never be longer).
-/
namespace InToto.Pae

theorem stripPrefix_append (a b : Bytes) : stripPrefix a (a ++ b) = some b := by
  induction a with
  | nil => cases b <;> rfl
  | cons x xs ih => simp [stripPrefix, ih]

theorem consumeLoadLen_toDec {n : Nat} (h : n < usizeBound) (rest : Bytes) :
    consumeLoadLen (toDec n ++ (SP :: rest)) = .ok (n, rest) := by
  unfold consumeLoadLen SP
  rw [takeWhile_toDec, dropWhile_toDec, parseUsize_toDec h]

/-- Round trip: unpacking what was packed returns exactly the original pair. -/
theorem c20_unpack_pack (utf8ok : Bytes → Bool) (t p : Bytes)
    (hu : utf8ok t = true) (ht : t.length < usizeBound) (hp : p.length < usizeBound) :
    unpack utf8ok (pack t p) = .ok (p, t) := by
  unfold unpack pack
  rw [stripPrefix_append]
  simp only [consumeLoadLen_toDec ht]
  have h1 : ¬ (t ++ SP :: (toDec p.length ++ SP :: p)).length < t.length := by
    simp
  have h2 : ¬ (t ++ SP :: (toDec p.length ++ SP :: p)).length < t.length + 1 := by
    simp
  have h3 : (t ++ SP :: (toDec p.length ++ SP :: p)).take t.length = t := by
    simp
  have h4 : (t ++ SP :: (toDec p.length ++ SP :: p)).drop (t.length + 1)
      = toDec p.length ++ SP :: p := by
    rw [List.drop_append]
    simp
  rw [if_neg h1]
  simp only [h3, hu, Bool.not_true, Bool.false_eq_true, if_false]
  rw [if_neg h2, h4]
  simp only [consumeLoadLen_toDec hp]
  simp

/-- Injectivity: two different (type, payload) pairs never pack to the same bytes. -/
theorem c20_pack_injective (t p t' p' : Bytes)
    (ht : t.length < usizeBound) (hp : p.length < usizeBound)
    (ht' : t'.length < usizeBound) (hp' : p'.length < usizeBound)
    (h : pack t p = pack t' p') : t = t' ∧ p = p' := by
  have e1 := c20_unpack_pack (fun _ => true) t p rfl ht hp
  have e2 := c20_unpack_pack (fun _ => true) t' p' rfl ht' hp'
  rw [h, e2] at e1
  cases e1
  exact ⟨rfl, rfl⟩

/-- No crash: unpacking arbitrary bytes yields a pair or an error, never a panic. -/
theorem c20_unpack_no_panic (utf8ok : Bytes → Bool) (bs : Bytes) (s : Nat) :
    unpack utf8ok bs ≠ .panic s := by
  have hc : ∀ raw s', consumeLoadLen raw ≠ .panic s' := by
    intro raw s'
    unfold consumeLoadLen
    split
    · simp
    · split <;> simp
  unfold unpack sliceFail
  repeat' split
  all_goals (try simp_all)
  all_goals (repeat' split)
  all_goals simp_all

/- Non-vacuity: the hypotheses of the round trip are met by a concrete non-trivial pair. -/
example : unpack (fun _ => true) (pack [108, 105, 110, 107] [123, 125]) = .ok ([123, 125], [108, 105, 110, 107]) :=
  c20_unpack_pack _ _ _ rfl (by decide) (by decide)

end InToto.Pae
