import InTotoModel.Props.C12
import InTotoModel.Lemmas.Pem
/-
  C12 — the PEM leg.  An RSA key's description carries its SubjectPublicKeyInfo as PEM text;
  `Model/Pem.lean` models the `pem` crate's reader (the quirky `read_until` scan, tags, headers,
  Unicode white space, canonical base64) and is compared with it on written and edited texts
  (`pem_dec`).  Proved here: the text the library writes for a key reads back as that key's DER bytes,
  hence the writer is injective, and the "PEM hypothesis" of `c12_preimage_determines_key` is
  discharged.
-/
namespace InToto.KeyId
open InToto InToto.Json

/-- The PEM text written for the DER bytes of a key reads back, through the `pem` reader, as exactly
    those bytes under the tag `PUBLIC KEY`. -/
theorem c12_pem_text_reads_back (der : Bytes) (hne : der ≠ []) :
    Pem.parse (pemPublicKey der) = some ("PUBLIC KEY".toList, der) := Pem.parse_pemPublicKey der hne

/-- Canonical base64 decodes what the writer encodes. -/
theorem c12_base64_round_trip (bs : Bytes) : Pem.b64Decode (base64 bs) = some bs := Pem.b64Decode_base64 bs

/-- The key-id preimage determines the key, with no hypothesis on PEM left: type, scheme,
    hash-algorithm list and material of two keys with the same preimage coincide (the DER wrapper's
    injectivity is `c12_spki_injective`, within its size bound). -/
theorem c12_preimage_determines_key_pem_proved (d d' : KeyDesc)
    (hspki : ∀ a b, spkiEncode .rsa a = spkiEncode .rsa b → a = b)
    (h : shimJson d = shimJson d') : d = d' :=
  c12_preimage_determines_key d d' Pem.pemPublicKey_injective_all hspki h

/- Non-vacuity: the reader on a concrete written text (kernel-evaluated). -/
example : Pem.parse (pemPublicKey [0x30, 0x03, 0x01, 0x02, 0x03]) = some ("PUBLIC KEY".toList, [0x30, 0x03, 0x01, 0x02, 0x03]) := by
  rfl

end InToto.KeyId
