import InTotoModel.Lemmas.Threshold
/-
  C04 — Signature thresholds count distinct authorized keys with valid signatures.

  Model: `InToto.Threshold.verifySigs` (= `Metablock::verify`, src/models/metadata.rs), for every
  key type `K`, every intrinsic-id function `kidOf`, every validity oracle `valid` (ring) and every
  `HashMap` iteration order `ord` (any function returning a permutation of its argument).
-/
namespace InToto.Threshold

variable {K : Type}

/-- an iteration order: any rearrangement of the entries -/
def IsOrder (ord : List (Str × Bytes) → List (Str × Bytes)) : Prop := ∀ l, (ord l).Perm l

def pairs (sigs : List Sig) : List (Str × Bytes) := sigs.map (fun s => (s.kid, s.val))
def tbl (kidOf : K → Str) (auth : List K) : List (Str × K) := auth.map (fun k => (kidOf k, k))

/-- number of deduplicated signature entries that are attributed to an authorized key and verify
    under that key -/
def goodCount (kidOf : K → Str) (valid : K → Bytes → Bool) (sigs : List Sig) (auth : List K) : Nat :=
  ((dedupLast (pairs sigs)).filter (good valid (tbl kidOf auth))).length

/-- Exact characterisation, for every iteration order. -/
theorem c04_verify_iff (kidOf : K → Str) (valid : K → Bytes → Bool)
    (ord : List (Str × Bytes) → List (Str × Bytes)) (hord : IsOrder ord)
    (sigs : List Sig) (t : Nat) (auth : List K) :
    verifySigs kidOf valid ord sigs t auth = .ok () ↔
      sigs ≠ [] ∧ 1 ≤ t ∧ t ≤ goodCount kidOf valid sigs auth := by
  unfold verifySigs goodCount
  by_cases hs : sigs = []
  · simp [hs]
  · have hs' : sigs.isEmpty = false := by cases sigs <;> simp_all
    simp only [hs', Bool.false_eq_true, if_false]
    by_cases ht : t < 1
    · simp [ht]; omega
    · simp only [ht, if_false]
      rw [loop_eq _ _ _ _ (by omega)]
      have := goodCount_perm valid (auth.map fun k => (kidOf k, k)) (hord (dedupLast (sigs.map fun s => (s.kid, s.val))))
      simp only [pairs, tbl]
      rw [this]
      constructor
      · intro h
        split at h
        · exact ⟨hs, by omega, by omega⟩
        · cases h
      · rintro ⟨_, h1, h2⟩
        have : t - ((dedupLast (sigs.map fun s => (s.kid, s.val))).filter
            (good valid (auth.map fun k => (kidOf k, k)))).length = 0 := by omega
        simp [this]

theorem verifySigs_ok_or_err (kidOf : K → Str) (valid : K → Bytes → Bool)
    (ord : List (Str × Bytes) → List (Str × Bytes)) (sigs : List Sig) (t : Nat) (auth : List K) :
    verifySigs kidOf valid ord sigs t auth = .ok () ∨ verifySigs kidOf valid ord sigs t auth = .err 1 := by
  unfold verifySigs
  split
  · exact Or.inr rfl
  · split
    · exact Or.inr rfl
    · simp only
      split
      · exact Or.inl rfl
      · exact Or.inr rfl

/-- The verdict does not depend on the iteration order of the hash maps. -/
theorem c04_order_independent (kidOf : K → Str) (valid : K → Bytes → Bool)
    (ord ord' : List (Str × Bytes) → List (Str × Bytes)) (h : IsOrder ord) (h' : IsOrder ord')
    (sigs : List Sig) (t : Nat) (auth : List K) :
    verifySigs kidOf valid ord sigs t auth = verifySigs kidOf valid ord' sigs t auth := by
  have e1 := c04_verify_iff kidOf valid ord h sigs t auth
  have e2 := c04_verify_iff kidOf valid ord' h' sigs t auth
  rcases verifySigs_ok_or_err kidOf valid ord sigs t auth with r1 | r1
  · rw [r1, e2.mpr (e1.mp r1)]
  · rcases verifySigs_ok_or_err kidOf valid ord' sigs t auth with r2 | r2
    · rw [e1.mpr (e2.mp r2)] at r1; cases r1
    · rw [r1, r2]

/-- Soundness: success only if `t ≥ 1` and at least `t` *distinct* key ids each belong to an
    authorized key and carry a signature, attributed to that id, that is valid under that key.
    Repeated signatures of one key, signatures of unauthorized keys and signatures attributed to a
    key that did not make them (so `valid k` fails) cannot contribute. -/
theorem c04_sound (kidOf : K → Str) (valid : K → Bytes → Bool)
    (ord : List (Str × Bytes) → List (Str × Bytes)) (hord : IsOrder ord)
    (sigs : List Sig) (t : Nat) (auth : List K)
    (h : verifySigs kidOf valid ord sigs t auth = .ok ()) :
    1 ≤ t ∧ ∃ ids : List Str, ids.Nodup ∧ t ≤ ids.length ∧
      ∀ id ∈ ids, ∃ k ∈ auth, kidOf k = id ∧ ∃ σ ∈ sigs, σ.kid = id ∧ valid k σ.val = true := by
  have ⟨_, h1, h2⟩ := (c04_verify_iff kidOf valid ord hord sigs t auth).mp h
  refine ⟨h1, ((dedupLast (pairs sigs)).filter (good valid (tbl kidOf auth))).map Prod.fst, ?_, ?_, ?_⟩
  · have hnd := dedupLast_keys_nodup (pairs sigs)
    exact (List.Sublist.map Prod.fst List.filter_sublist).nodup hnd
  · simpa [goodCount] using h2
  · intro id hid
    obtain ⟨e, he, rfl⟩ := List.mem_map.mp hid
    have ⟨hmem, hgood⟩ := List.mem_filter.mp he
    unfold good at hgood
    cases hl : lastFind e.1 (tbl kidOf auth) with
    | none => rw [hl] at hgood; cases hgood
    | some k =>
      rw [hl] at hgood
      have hk := lastFind_mem hl
      simp only [tbl, List.mem_map, Prod.mk.injEq] at hk
      obtain ⟨k', hk', hid', rfl⟩ := hk
      refine ⟨k', hk', hid', ?_⟩
      have := dedupLast_subset (pairs sigs) e hmem
      simp only [pairs, List.mem_map] at this
      obtain ⟨σ, hσ, rfl⟩ := this
      exact ⟨σ, hσ, rfl, hgood⟩

/-- Completeness: when each key signs at most once and at least `t ≥ 1` distinct authorized keys
    have valid signatures, verification succeeds for every order of the signatures, every order of
    the keys and every hash-map iteration order.  (`hinj`: distinct authorized keys have distinct
    ids, i.e. no SHA-256 collision among them.) -/
theorem c04_complete (kidOf : K → Str) (valid : K → Bytes → Bool)
    (sigs : List Sig) (t : Nat) (auth : List K)
    (hnd : (sigs.map Sig.kid).Nodup)
    (hinj : ∀ k ∈ auth, ∀ k' ∈ auth, kidOf k = kidOf k' → k = k')
    (ids : List Str) (hids : ids.Nodup) (ht1 : 1 ≤ t) (ht : t ≤ ids.length)
    (hgood : ∀ id ∈ ids, ∃ k ∈ auth, kidOf k = id ∧ ∃ σ ∈ sigs, σ.kid = id ∧ valid k σ.val = true)
    (sigs' : List Sig) (auth' : List K) (hs : sigs'.Perm sigs) (ha : auth'.Perm auth)
    (ord : List (Str × Bytes) → List (Str × Bytes)) (hord : IsOrder ord) :
    verifySigs kidOf valid ord sigs' t auth' = .ok () := by
  apply (c04_verify_iff kidOf valid ord hord sigs' t auth').mpr
  have hne : sigs' ≠ [] := by
    intro e
    subst e
    have : sigs = [] := by
      have := hs.length_eq
      cases sigs with
      | nil => rfl
      | cons _ _ => simp at this
    subst this
    cases ids with
    | nil => simp at ht; omega
    | cons id _ =>
      obtain ⟨_, _, _, σ, hσ, _⟩ := hgood id (by simp)
      simp at hσ
  refine ⟨hne, ht1, ?_⟩
  have hnd' : ((pairs sigs').map Prod.fst).Nodup := by
    have : (pairs sigs').map Prod.fst = sigs'.map Sig.kid := by simp [pairs]
    rw [this]
    exact ((hs.map Sig.kid).nodup_iff).mpr hnd
  unfold goodCount
  rw [dedupLast_of_nodup hnd']
  -- every id is the key of a good entry
  have hsub : ∀ id ∈ ids, id ∈ ((pairs sigs').filter (good valid (tbl kidOf auth'))).map Prod.fst := by
    intro id hid
    obtain ⟨k, hk, hkid, σ, hσ, hσid, hv⟩ := hgood id hid
    refine List.mem_map.mpr ⟨(σ.kid, σ.val), ?_, hσid⟩
    refine List.mem_filter.mpr ⟨?_, ?_⟩
    · simp only [pairs, List.mem_map]
      exact ⟨σ, hs.mem_iff.mpr hσ, rfl⟩
    · unfold good
      have hk' : k ∈ auth' := ha.mem_iff.mpr hk
      have hin : (σ.kid, k) ∈ tbl kidOf auth' := by
        simp only [tbl, List.mem_map, Prod.mk.injEq]
        exact ⟨k, hk', by rw [hkid, hσid], rfl⟩
      obtain ⟨w, hw⟩ := lastFind_isSome_of_mem hin
      rw [hw]
      have hwm := lastFind_mem hw
      simp only [tbl, List.mem_map, Prod.mk.injEq] at hwm
      obtain ⟨w', hw', hwid, rfl⟩ := hwm
      have : w' = k := hinj w' (ha.mem_iff.mp hw') k hk (by rw [hwid, hkid, hσid])
      subst this
      exact hv
  have hle := List.Nodup.length_le_of_subset hids hsub
  simp only [List.length_map] at hle
  omega

/-- Successful verification returns exactly the content whose signatures were checked. -/
theorem c04_returns_checked_content {α : Type} (kidOf : K → Str) (valid : K → Bytes → Bool)
    (ord : List (Str × Bytes) → List (Str × Bytes)) (sigs : List Sig) (signed x : α) (t : Nat) (auth : List K)
    (h : verifyBlock kidOf valid ord sigs signed t auth = .ok x) :
    x = signed ∧ verifySigs kidOf valid ord sigs t auth = .ok () := by
  unfold verifyBlock at h
  split at h <;> simp_all

/- Non-vacuity: two keys, threshold 2, both signed validly once — the hypotheses of `c04_complete`
   are satisfiable, and a duplicated signature of one key does not reach threshold 2. -/
example : verifySigs (K := Str) id (fun _ v => v == [1]) id
    [⟨['a'], [1]⟩, ⟨['b'], [1]⟩] 2 [['a'], ['b']] = .ok () := by decide
example : verifySigs (K := Str) id (fun _ v => v == [1]) id
    [⟨['a'], [1]⟩, ⟨['a'], [1]⟩] 2 [['a'], ['b']] = .err 1 := by decide

end InToto.Threshold
