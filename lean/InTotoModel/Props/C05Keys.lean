import InTotoModel.Props.C05
import InTotoModel.Props.C16Keys
/-
  C05 — layouts, with nothing assumed about the outside parts any more: the expiry writer is the
  model of chrono's (`Model/Time.lean`), the key writer is `Model/KeyJson.lean` (hex / PEM + DER), and
  both are proved injective on what a layout can hold.
-/
namespace InToto.Json
open InToto InToto.Wire InToto.KeyJson

/-- Two different layouts - differing in any of readme, expiry (to the second), key table, steps,
    inspections - are never signed over the same bytes. -/
theorem c05_distinct_layouts_distinct_signed_bytes_full {L L' : LayoutW KeyId.KeyDesc}
    (hc : KeysSorted (L.keys.map Prod.fst)) (hc' : KeysSorted (L'.keys.map Prod.fst))
    (he : Time.WholeKey L.expires) (he' : Time.WholeKey L'.expires)
    (hm : ∀ p ∈ L.keys, p.2.material.length < 60000) (hm' : ∀ p ∈ L'.keys, p.2.material.length < 60000)
    (hne : L ≠ L')
    {t t' : Str} (h : signedText (layoutToJson stdKeyEnv L) = .ok t)
    (h' : signedText (layoutToJson stdKeyEnv L') = .ok t') : t ≠ t' := by
  intro e
  subst e
  apply hne
  apply layout_norm_injective_mem stdKeyEnv ?_ ?_ ⟨hc⟩ ⟨hc'⟩ (c05_signed_text_injective h h')
  · intro p hp p' hp' hn
    rw [std_keyToJson] at hn
    exact keyToJson_norm_injective (hm p hp) (hm' p' hp') hn
  · rw [std_fmtTime]
    exact Time.fmtTimeKey_injective he he'

end InToto.Json
