import InTotoModel.Model.Attest
/-
  C19 — Attestation statements and predicates are self-consistent and round-trip.

  Proved here, over the schemas and string tables translated from the source on every run
  (`Generated.Schema`): no set of member names is admitted by two predicate formats, nor by two
  statement formats (so an accepted document is recognised as exactly one format version); the
  version string tables are mutually inverse; a decoded v0.1 statement's declared predicate type is
  the version of the predicate it contains.  Value-level round trips (including timestamps) and
  `merge` depend on serde-derive and chrono and are checked by the harness oracle only.
-/
namespace InToto.Attest
open InToto.Generated

/-- generic lemma: if `s1` denies unknown members and `s2` requires a member that `s1` does not
    have, no member set is admitted by both -/
theorem not_both {s1 s2 : StructSpec} (hd : s1.denyUnknown = true) (f : Str)
    (hf : f ∈ requiredNames s2) (hn : f ∉ fieldNames s1) (keys : List Str) :
    ¬ (admits s1 keys = true ∧ admits s2 keys = true) := by
  intro ⟨h1, h2⟩
  simp only [admits, Bool.and_eq_true, List.all_eq_true, hd, Bool.not_true, Bool.false_or,
    decide_eq_true_eq] at h1 h2
  exact hn (h1.2 f (h2.1 f hf))

def schemaOf (n : Str) : StructSpec := (findSchema n).getD ⟨[], false, []⟩

/-- a required member of `b` that `a` does not know (the certificate of disjointness) -/
def separator (a b : StructSpec) : Option Str := (requiredNames b).find? (fun f => !(f ∈ fieldNames a))

theorem separator_spec {a b : StructSpec} {f : Str} (h : separator a b = some f) :
    f ∈ requiredNames b ∧ f ∉ fieldNames a := by
  unfold separator at h
  have h1 := List.mem_of_find?_eq_some h
  have h2 := List.find?_some h
  exact ⟨h1, by simpa using h2⟩

/-- every ordered pair of distinct formats in the list is separated in one direction -/
def pairwiseSeparated (formats : List Str) : Bool :=
  formats.all fun a => formats.all fun b =>
    a = b || ((schemaOf a).denyUnknown && (separator (schemaOf a) (schemaOf b)).isSome)
      || ((schemaOf b).denyUnknown && (separator (schemaOf b) (schemaOf a)).isSome)

theorem predicate_formats_separated : pairwiseSeparated predicateFormats = true := by decide
theorem statement_formats_separated : pairwiseSeparated statementFormats = true := by decide
theorem formats_known : (predicateFormats ++ statementFormats).all (fun n => (findSchema n).isSome) = true := by decide

theorem candidates_unique {formats : List Str} (hsep : pairwiseSeparated formats = true)
    (keys : List Str) (a b : Str) (ha : a ∈ candidates formats keys) (hb : b ∈ candidates formats keys) : a = b := by
  simp only [candidates, List.mem_filter] at ha hb
  obtain ⟨hma, haa⟩ := ha
  obtain ⟨hmb, hbb⟩ := hb
  have := List.all_eq_true.mp (List.all_eq_true.mp hsep a hma) b hmb
  simp only [Bool.or_eq_true, Bool.and_eq_true, decide_eq_true_eq] at this
  have adm : ∀ n, (match findSchema n with | some s => admits s keys | none => false) = true →
      admits (schemaOf n) keys = true := by
    intro n h
    unfold schemaOf
    cases hs : findSchema n with
    | none => rw [hs] at h; cases h
    | some s => rw [hs] at h; simpa using h
  rcases this with (e | ⟨hd, hs⟩) | ⟨hd, hs⟩
  · exact e
  · exfalso
    obtain ⟨f, hf⟩ := Option.isSome_iff_exists.mp hs
    have ⟨h1, h2⟩ := separator_spec hf
    exact not_both hd f h1 h2 keys ⟨adm a haa, adm b hbb⟩
  · exfalso
    obtain ⟨f, hf⟩ := Option.isSome_iff_exists.mp hs
    have ⟨h1, h2⟩ := separator_spec hf
    exact not_both hd f h1 h2 keys ⟨adm b hbb, adm a haa⟩

/-- A predicate document is recognised as at most one format version, whatever its members. -/
theorem c19_predicate_formats_disjoint (keys : List Str) (a b : Str)
    (ha : a ∈ candidates predicateFormats keys) (hb : b ∈ candidates predicateFormats keys) : a = b :=
  candidates_unique predicate_formats_separated keys a b ha hb

/-- A statement document is recognised as at most one format version. -/
theorem c19_statement_formats_disjoint (keys : List Str) (a b : Str)
    (ha : a ∈ candidates statementFormats keys) (hb : b ∈ candidates statementFormats keys) : a = b :=
  candidates_unique statement_formats_separated keys a b ha hb

/-- The version string tables are mutually inverse: every variant's string is accepted as that
    variant, and every accepted string is the string of the variant it is accepted as. -/
theorem c19_version_tables_inverse :
    (predicateVerToString.all fun p => predicateVerOf p.2 == some p.1) = true ∧
    (predicateVerOfString.all fun p => predicateVerStr p.2 == some p.1) = true ∧
    (statementVerToString.all fun p => statementVerOf p.2 == some p.1) = true ∧
    (statementVerOfString.all fun p => statementVerStr p.2 == some p.1) = true := by
  decide

/-- A decoded statement's declared predicate type always names the format of the predicate it
    contains. -/
theorem c19_declared_type_is_contained_format (declared : Str) (keys : List Str) (v fmt : Str)
    (h : decodeTypedPredicate declared keys = some (v, fmt)) :
    predicateVerOf declared = some v ∧ fmt ∈ candidates predicateFormats keys ∧ versionOfFormat fmt = some v := by
  unfold decodeTypedPredicate at h
  split at h
  · rename_i v' fmt' hv hc
    split at h
    · rename_i hver
      cases h
      exact ⟨hv, by rw [hc]; simp, hver⟩
    · cases h
  · cases h

/- Non-vacuity: a Link v0.2 shaped member set is admitted by exactly that format. -/
example : candidates predicateFormats
    [['n', 'a', 'm', 'e'], ['m', 'a', 't', 'e', 'r', 'i', 'a', 'l', 's'], ['c', 'o', 'm', 'm', 'a', 'n', 'd'],
     ['b', 'y', 'p', 'r', 'o', 'd', 'u', 'c', 't', 's']] = [['L', 'i', 'n', 'k', 'V', '0', '2']] := by decide

end InToto.Attest
