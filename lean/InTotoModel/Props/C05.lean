import InTotoModel.Props.C10
import InTotoModel.Props.C11
import InTotoModel.Lemmas.CodecInj
import InTotoModel.Props.C16
/-
  C05 — Any meaningful change to signed content invalidates its signatures.

  JSON level: the signed text determines the JSON value (`norm` = the value as a `BTreeMap`-based
  `serde_json::Value`; member order is not part of a JSON value) — `signedText` and `canon` are
  injective.
  Metadata level (`Lemmas/CodecInj.lean`): the encoders of `Model/Codec.lean` are injective up to
  that normal form on canonical values (maps taken in key order, as `BTreeMap`s are), field by field:
  name, materials and products with every digest, environment, byproducts, command; step and
  inspection names, thresholds, rules, authorized key ids, commands; readme, key table, expiry.
  Composition: two different links, or two different layouts, are never signed over the same bytes
  (`c05_distinct_links_…`, `c05_distinct_layouts_…`).  For layouts the two outside parts enter as
  hypotheses (`EnvInjective`): the expiry writer gives different texts for different instants (to
  the second) and different keys have different JSON descriptions (C12).  The first of the two is a
  theorem about the model of chrono's writer (`Lemmas/TimeParse.lean`) and is discharged in
  `c05_distinct_layouts_distinct_signed_bytes_std`.
-/
namespace InToto.Json

/-- No two distinct JSON values have the same canonical encoding. -/
theorem c05_canon_injective {v v' : JV} {t : Str} (h : canon v = .ok t) (h' : canon v' = .ok t) :
    norm v = norm v' :=
  c10_canon_injective h h'

/-- The byte strings that are signed for two distinct JSON values differ. -/
theorem c05_signed_text_injective {v v' : JV} {t : Str}
    (h : signedText v = .ok t) (h' : signedText v' = .ok t) : norm v = norm v' := by
  have e1 := c11_reference_parses_back h
  have e2 := c11_reference_parses_back h'
  rw [e1] at e2
  exact Option.some.inj e2

/-- Contrapositive, as the property words it: values that differ are signed over different bytes. -/
theorem c05_distinct_values_distinct_bytes {v v' : JV} {t t' : Str}
    (hne : norm v ≠ norm v') (h : signedText v = .ok t) (h' : signedText v' = .ok t') : t ≠ t' := by
  intro e
  subst e
  exact hne (c05_signed_text_injective h h')

open InToto.Wire in
/-- Two different links are signed over different bytes. -/
theorem c05_distinct_links_distinct_signed_bytes {l l' : LinkW} (hc : l.Canon) (hc' : l'.Canon) (hne : l ≠ l')
    {t t' : Str} (h : signedText (linkToJson l) = .ok t) (h' : signedText (linkToJson l') = .ok t') : t ≠ t' := by
  intro e
  subst e
  exact hne (link_norm_injective hc hc' (c05_signed_text_injective h h'))

open InToto.Wire in
/-- Two different layouts are signed over different bytes. -/
theorem c05_distinct_layouts_distinct_signed_bytes {K : Type} (E : DocEnv K) (hE : EnvInjective E)
    {L L' : LayoutW K} (hc : LayoutCanon E L) (hc' : LayoutCanon E L') (hne : L ≠ L')
    {t t' : Str} (h : signedText (layoutToJson E L) = .ok t) (h' : signedText (layoutToJson E L') = .ok t') :
    t ≠ t' := by
  intro e
  subst e
  exact hne (layout_norm_injective E hE hc hc' (c05_signed_text_injective h h'))

open InToto.Wire in
/-- The same with the modelled RFC 3339 writer (`Model/Time.lean`) in place of the hypothesis on the
    expiry writer: two different layouts whose expiries are whole-second instants of the years
    0000–9999 ("expiry to the second") are signed over different bytes, given only that different keys
    have different JSON descriptions. -/
theorem c05_distinct_layouts_distinct_signed_bytes_std {K : Type} (E : DocEnv K)
    (hkey : ∀ k k', norm (E.keyToJson k) = norm (E.keyToJson k') → k = k')
    {L L' : LayoutW K} (hc : LayoutCanon E L) (hc' : LayoutCanon E L')
    (he : Time.WholeKey L.expires) (he' : Time.WholeKey L'.expires) (hne : L ≠ L')
    {t t' : Str} (h : signedText (layoutToJson E.withStdTime L) = .ok t)
    (h' : signedText (layoutToJson E.withStdTime L') = .ok t') :
    t ≠ t' := by
  intro e
  subst e
  apply hne
  apply layout_norm_injective_of E.withStdTime (by rw [withStdTime_keyToJson]; exact hkey) ?_ ⟨hc.keys⟩ ⟨hc'.keys⟩
    (c05_signed_text_injective h h')
  rw [withStdTime_fmtTime]
  exact Time.fmtTimeKey_injective he he'

open InToto.Wire in
/-- The same for single steps and inspections (every field of either is observable in the bytes). -/
theorem c05_distinct_steps_distinct_signed_bytes {s s' : StepW} (hne : s ≠ s')
    {t t' : Str} (h : signedText (stepToJson s) = .ok t) (h' : signedText (stepToJson s') = .ok t') : t ≠ t' := by
  intro e
  subst e
  exact hne (step_norm_injective (c05_signed_text_injective h h'))

/- Non-vacuity: the example link of Props/C16.lean is canonical, and so is the link that differs
   from it in one digest byte. -/
open InToto.Wire in
theorem exLink_canon : exLink.Canon := by
  refine ⟨⟨by decide, ?_⟩, ⟨by decide, ?_⟩, ?_, exLink_WF.2.2, by decide⟩
  · intro p hp; simp only [exLink, List.mem_singleton] at hp; subst hp; unfold DigestCanon; decide
  · intro p hp; simp only [exLink, List.mem_singleton] at hp; subst hp; unfold DigestCanon; decide
  · intro m hm; simp only [exLink, Option.some.injEq] at hm; subst hm; decide

open InToto.Wire in
def exLink' : LinkW := { exLink with materials := [("src/a.c".toList, [("sha256".toList, [0xab, 0x02])])] }

open InToto.Wire in
example : exLink'.Canon ∧ exLink ≠ exLink' := by
  refine ⟨⟨⟨by decide, ?_⟩, exLink_canon.2.1, exLink_canon.2.2.1, exLink_canon.2.2.2⟩, by decide⟩
  intro p hp; simp only [exLink', List.mem_singleton] at hp; subst hp; unfold DigestCanon; decide

/- Non-vacuity: the near-collision "LF vs backslash-n" is told apart. -/
example : signedText (.str ['\n']) ≠ signedText (.str ['\\', 'n']) := by
  rw [c11_signed_text_is_reference, c11_signed_text_is_reference]; decide

end InToto.Json
