import InTotoModel.Props.C10
import InTotoModel.Props.C11
/-
  C05 — Any meaningful change to signed content invalidates its signatures.

  JSON level (this file): the signed text determines the JSON value (`norm` = the value as a
  `BTreeMap`-based `serde_json::Value`; member order is not part of a JSON value) — `signedText`
  and `canon` are injective.  The step from layouts / links to JSON values (the serialisation is
  injective on representable metadata) is `c16_*_toJson_injective` in Props/C16.lean and is
  composed there (`c05_metadata_*`).
-/
namespace InToto.Json

/-- No two distinct JSON values have the same canonical encoding. -/
theorem c05_canon_injective {v v' : JV} {t : Str} (h : canon v = .ok t) (h' : canon v' = .ok t) :
    norm v = norm v' :=
  c10_canon_injective h h'

/-- The byte strings that are signed for two distinct JSON values differ. -/
theorem c05_signed_text_injective {v v' : JV} {t : Str}
    (h : signedText v = .ok t) (h' : signedText v' = .ok t) : norm v = norm v' := by
  have e1 := c11_reference_parses_back h
  have e2 := c11_reference_parses_back h'
  rw [e1] at e2
  exact Option.some.inj e2

/-- Contrapositive, as the property words it: values that differ are signed over different bytes. -/
theorem c05_distinct_values_distinct_bytes {v v' : JV} {t t' : Str}
    (hne : norm v ≠ norm v') (h : signedText v = .ok t) (h' : signedText v' = .ok t') : t ≠ t' := by
  intro e
  subst e
  exact hne (c05_signed_text_injective h h')

/- Non-vacuity: the near-collision "LF vs backslash-n" is told apart. -/
example : signedText (.str ['\n']) ≠ signedText (.str ['\\', 'n']) := by
  rw [c11_signed_text_is_reference, c11_signed_text_is_reference]; decide

end InToto.Json
