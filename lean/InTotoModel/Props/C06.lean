import InTotoModel.Props.C15
import InTotoModel.Lemmas.TimeParse
/-
  C06 — An expired layout is never accepted.

  `L.expires` and `env.now path` are absolute instants (`Time.key`s).  `env.now path` is the clock
  reading made while verifying the layout found at `path` (the empty path for the top level).

  How the text of `expires` becomes an instant is `Model/Time.lean` (chrono's RFC 3339 reader,
  conversion to UTC, truncation to the second): the second half of this file proves that every
  notation of an instant — any UTC offset within ±23:59, `Z`/`z`, `T`/`t`/space, `-`/U+2212, with or
  without a fraction — reads as that same instant, that instants are ordered as chrono orders them, and
  that the text the library writes reads back.  The tie of that model to chrono and to the layout
  reader is the `rfc3339` / `fmttime` correspondence of this check.
-/
namespace InToto.Verify

variable {K : Type}

/-- Success implies the enforced layout's expiry is not earlier than the moment of verification. -/
theorem c06_not_expired {env : Env K} {ord : Ord}
    {fuel : Nat} {path : List Str} {b : Block K} {keys : List K} {dir : Dir K} {name : Str} {s : Link}
    (h : (verify env ord fuel path b keys dir name).1 = .ok s) :
    ∃ L, b.signed = .layout L ∧ env.now path ≤ L.expires := by
  obtain ⟨f, rfl⟩ := verify_ok_fuel h
  obtain ⟨p⟩ := verify_ok_inv h
  exact ⟨p.L, (verifyBlockK_ok p.hsig).1.symm, Int.not_lt.mp p.hexp⟩

/-- An expired layout is rejected, whatever else holds. -/
theorem c06_expired_is_rejected {env : Env K} {ord : Ord}
    (fuel : Nat) (path : List Str) (b : Block K) (keys : List K) (dir : Dir K) (name : Str) (s : Link)
    (L : Layout K) (hb : b.signed = .layout L) (hexp : L.expires < env.now path) :
    (verify env ord fuel path b keys dir name).1 ≠ .ok s := by
  intro h
  obtain ⟨L', hL', hle⟩ := c06_not_expired h
  rw [hb] at hL'
  cases hL'
  omega

/-- The same holds for every sub-layout reached through delegation: a sub-layout that counted as
    evidence was unexpired at the clock reading made for it (and so on recursively, because the
    sub-layout's own verification is again a successful `verify`, see `c15_sublayout_fully_verified`). -/
theorem c06_sublayouts_not_expired {env : Env K} {ord : Ord} (hord : ord.Valid)
    {fuel : Nat} {path : List Str} {b : Block K} {keys : List K} {dir : Dir K} {name : Str} {s : Link}
    (h : (verify env ord (fuel + 1) path b keys dir name).1 = .ok s) :
    ∃ p : Passed env ord fuel path b keys dir name s,
      ∀ v ∈ p.verified, ∀ e ∈ v.2, ∀ L', e.2.signed = .layout L' →
        env.now (path ++ [subName v.1 e.1]) ≤ L'.expires := by
  obtain ⟨p, hp⟩ := c15_sublayout_fully_verified hord h
  refine ⟨p, ?_⟩
  intro v hv e he L' hL'
  obtain ⟨_, k, _, _, s', hver⟩ := hp v hv e he L' hL'
  obtain ⟨L2, hL2, hle⟩ := c06_not_expired hver
  rw [hL'] at hL2
  cases hL2
  exact hle

/-- The expiry clause in terms of the document's text: if the layout's expiry is the instant its
    `expires` text denotes (in whatever notation), kept to the second, and that is earlier than the
    clock, verification fails. -/
theorem c06_expired_text_is_rejected {env : Env K} {ord : Ord}
    (fuel : Nat) (path : List Str) (b : Block K) (keys : List K) (dir : Dir K) (name : Str) (s : Link)
    (L : Layout K) (hb : b.signed = .layout L) (text : Str) (i : Time.Time)
    (hread : Time.parseRfc3339 text = some i) (hexpires : L.expires = (Time.truncWhole i).key)
    (hexp : (Time.truncWhole i).key < env.now path) :
    (verify env ord fuel path b keys dir name).1 ≠ .ok s :=
  c06_expired_is_rejected fuel path b keys dir name s L hb (by rw [hexpires]; exact hexp)

end InToto.Verify

namespace InToto.Time

/-- "Read as an absolute time whatever UTC-offset notation the document uses": the text of instant
    `t` in any valid notation reads as `t` (local year 0000–9999; a leap second only on second 59). -/
theorem c06_every_notation_reads_as_the_instant (t : Time) (n : Notation) (hv : n.Valid)
    (hyear : 0 ≤ (civilFromDays ((t.secs + n.offMin * 60) / 86400)).y ∧
             (civilFromDays ((t.secs + n.offMin * 60) / 86400)).y ≤ 9999)
    (hnanos : t.nanos < 2000000000)
    (hleap : t.nanos ≥ 1000000000 → t.secs % 60 = 59)
    (hfrac : n.fraction = false → t.nanos % 1000000000 = 0) :
    parseRfc3339 (render t n) = some t := parse_render t n hv hyear hnanos hleap hfrac

/-- Two notations of one instant (different offsets, separators, zone spellings) read alike. -/
theorem c06_offset_notation_is_irrelevant (t : Time) (n n' : Notation) (hv : n.Valid) (hv' : n'.Valid)
    (hyear : 0 ≤ (civilFromDays ((t.secs + n.offMin * 60) / 86400)).y ∧
             (civilFromDays ((t.secs + n.offMin * 60) / 86400)).y ≤ 9999)
    (hyear' : 0 ≤ (civilFromDays ((t.secs + n'.offMin * 60) / 86400)).y ∧
             (civilFromDays ((t.secs + n'.offMin * 60) / 86400)).y ≤ 9999)
    (hnanos : t.nanos < 2000000000)
    (hleap : t.nanos ≥ 1000000000 → t.secs % 60 = 59)
    (hfrac : n.fraction = false → t.nanos % 1000000000 = 0)
    (hfrac' : n'.fraction = false → t.nanos % 1000000000 = 0) :
    parseRfc3339 (render t n) = parseRfc3339 (render t n') := by
  rw [parse_render t n hv hyear hnanos hleap hfrac, parse_render t n' hv' hyear' hnanos hleap hfrac']

/-- The comparison the verifier makes on keys is chrono's order on instants. -/
theorem c06_instant_order {t t' : Time} (h : t.nanos < 2000000000) (h' : t'.nanos < 2000000000) :
    t.key < t'.key ↔ t.secs < t'.secs ∨ (t.secs = t'.secs ∧ t.nanos < t'.nanos) := key_lt_iff h h'

/-- What the library writes for an expiry reads back as that expiry kept to the second. -/
theorem c06_written_expiry_reads_back (t : Time) (h : t.Representable) :
    parseRfc3339 (fmtRfc3339 t) = some (truncWhole t) := parse_fmt t h

/-- The calendar arithmetic: the date of a day number is an existing date with that day number. -/
theorem c06_calendar (z : Int) :
    daysFromCivil (civilFromDays z).y (civilFromDays z).m (civilFromDays z).d = z ∧
    1 ≤ (civilFromDays z).m ∧ (civilFromDays z).m ≤ 12 ∧ 1 ≤ (civilFromDays z).d ∧
    (civilFromDays z).d ≤ daysInMonth (civilFromDays z).y (civilFromDays z).m := civil_facts z

/- Non-vacuity: a leap second, written five and a half hours east with U+2212-free `+`, and the same
   instant written in UTC, both read as (1483228799 s, 1.5·10⁹ ns); the notation is valid. -/
example : parseRfc3339 "2017-01-01 05:29:60.5+05:30".toList = some ⟨1483228799, 1500000000⟩ := by decide
example : parseRfc3339 "2016-12-31T23:59:60.500000000Z".toList = some ⟨1483228799, 1500000000⟩ := by decide
example : (⟨330, ' ', none, '-', true, []⟩ : Notation).Valid := by
  refine ⟨by decide, by decide, Or.inr (Or.inr rfl), ?_, Or.inl rfl, ?_⟩ <;> simp
example : render ⟨1483228799, 1500000000⟩ ⟨330, ' ', none, '-', true, []⟩ = "2017-01-01 05:29:60.500000000+05:30".toList := by
  decide
example : (⟨1483228799, 1500000000⟩ : Time).Representable := by
  refine ⟨by decide, by decide, by decide, by decide⟩
example : fmtRfc3339 ⟨1483228799, 1500000000⟩ = "2016-12-31T23:59:60Z".toList := by decide

end InToto.Time
