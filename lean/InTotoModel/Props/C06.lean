import InTotoModel.Props.C15
/-
  C06 — An expired layout is never accepted.

  `L.expires` and `env.now path` are absolute instants (seconds; the reading of RFC 3339 text with
  any UTC offset into an instant is chrono's parser — library behaviour, modelled in Model/Time.lean
  and validated differentially).  `env.now path` is the clock reading made while verifying the
  layout found at `path` (the empty path for the top level).
-/
namespace InToto.Verify

variable {K : Type}

/-- Success implies the enforced layout's expiry is not earlier than the moment of verification. -/
theorem c06_not_expired {env : Env K} {ord : Ord}
    {fuel : Nat} {path : List Str} {b : Block K} {keys : List K} {dir : Dir K} {name : Str} {s : Link}
    (h : (verify env ord fuel path b keys dir name).1 = .ok s) :
    ∃ L, b.signed = .layout L ∧ env.now path ≤ L.expires := by
  obtain ⟨f, rfl⟩ := verify_ok_fuel h
  obtain ⟨p⟩ := verify_ok_inv h
  exact ⟨p.L, (verifyBlockK_ok p.hsig).1.symm, Int.not_lt.mp p.hexp⟩

/-- An expired layout is rejected, whatever else holds. -/
theorem c06_expired_is_rejected {env : Env K} {ord : Ord}
    (fuel : Nat) (path : List Str) (b : Block K) (keys : List K) (dir : Dir K) (name : Str) (s : Link)
    (L : Layout K) (hb : b.signed = .layout L) (hexp : L.expires < env.now path) :
    (verify env ord fuel path b keys dir name).1 ≠ .ok s := by
  intro h
  obtain ⟨L', hL', hle⟩ := c06_not_expired h
  rw [hb] at hL'
  cases hL'
  omega

/-- The same holds for every sub-layout reached through delegation: a sub-layout that counted as
    evidence was unexpired at the clock reading made for it (and so on recursively, because the
    sub-layout's own verification is again a successful `verify`, see `c15_sublayout_fully_verified`). -/
theorem c06_sublayouts_not_expired {env : Env K} {ord : Ord} (hord : ord.Valid)
    {fuel : Nat} {path : List Str} {b : Block K} {keys : List K} {dir : Dir K} {name : Str} {s : Link}
    (h : (verify env ord (fuel + 1) path b keys dir name).1 = .ok s) :
    ∃ p : Passed env ord fuel path b keys dir name s,
      ∀ v ∈ p.verified, ∀ e ∈ v.2, ∀ L', e.2.signed = .layout L' →
        env.now (path ++ [subName v.1 e.1]) ≤ L'.expires := by
  obtain ⟨p, hp⟩ := c15_sublayout_fully_verified hord h
  refine ⟨p, ?_⟩
  intro v hv e he L' hL'
  obtain ⟨_, k, _, _, s', hver⟩ := hp v hv e he L' hL'
  obtain ⟨L2, hL2, hle⟩ := c06_not_expired hver
  rw [hL'] at hL2
  cases hL2
  exact hle

end InToto.Verify
