import InTotoModel.Model.Basic
